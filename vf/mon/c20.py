"""C20 — work grows at most linearly on adversarial inputs (guards hold)."""
from __future__ import annotations

import traceback

from vf import conf as C
from vf import families as F
from vf.cost import Meter, StepBudgetExceeded
from vf.selftests import selftest
from vf.util import walk

LEVEL = "exploration"
RULE = (
    "cases = (family, preset, doubling sequence of input lengths 250, 500, ... up to 4L; L = 2 000 quick / 25 000 thorough) over a "
    "catalogue of ~75 scalable pathological families (the 24 patterns of upstream markdown-it's test/pathological.js + own) x "
    "{commonmark, js-default(+typographer), gfm-like with stub linkifier}. Oracle: deterministic work counter = sys.monitoring "
    "PY_START events of library code + loop back-edges (JUMP) during render; every doubling step runs under a budget of 2.6 x the "
    "previous step's work (+ constant slack) and exceeding it is the violation (so exponential blow-ups are decided in "
    "milliseconds); Python stack depth sampled in the same callback must not keep growing with the length; token levels must stay "
    "<= maxNesting. A family counts only if the rule function it aims at was entered >= len/20 times (or >= 3 for per-document "
    "rules). Non-trivial = counted (family, preset) pair; distinct by (family, preset)."
    " Catalogue ~120 families incl. open-bracket blocks and quotes inside list items ended by another block."
)
ASSUMPTIONS = [
    "work = library function entries + loop back-edges, a deterministic measure; no wall-clock anywhere",
    "threshold 2.6 between consecutive doublings (legitimate values measured on this tree: 1.0-2.1), plus a slack of 20 000 events for fixed start-up work",
]
NSHARDS = {"quick": 16, "thorough": 32}
TIMEOUT = {"quick": 1200, "thorough": 14000}
WATCHDOG = {"quick": 1100, "thorough": 13900}
STALL_S = 400
RATIO = 2.6
SLACK = 20000

# families whose work is legitimately super-linear until a fixed limit applies (like nesting below maxNesting): the sparse table
# fills up to MAX_AUTOCOMPLETED_CELLS = 65536 cells, reached at ~1.3 kB of input; beyond that the work per character falls
SATURATES_AT = {"table_sparse": 4000}

PRESETS = {
    "cm": {"preset": "commonmark"},
    "js": {"preset": "js-default", "options": {"typographer": True}},
    "gfm": {"preset": "gfm-like", "stub_linkify": True, "options": {"typographer": True}},
}


def _cnt(toks, *types):
    return sum(1 for t in walk(toks) if t.type in types)


# output-based reach criteria for families whose target rule handles the whole input inside ONE call (so that the number of
# entries into the rule says nothing): (tokens, html, length) -> bool
EXPECT = {
    "table_rows": lambda t, h, n: _cnt(t, "tr_open") >= n // 20,
    "table_cols": lambda t, h, n: _cnt(t, "th_open") >= n // 20,
    "table_sparse": lambda t, h, n: _cnt(t, "td_open") >= min(60000, (n // 6) ** 2 // 2),
    "link_paren_dest": lambda t, h, n: _cnt(t, "link_open") >= 1 or "[a](((" in h,
    "setext_runup": lambda t, h, n: any(x.type == "heading_open" and x.markup == "=" for x in t),
    "pipes": lambda t, h, n: any(x.type == "inline" and len(x.content) >= n // 2 for x in t),
    "code_lines": lambda t, h, n: any(x.type == "code_block" and x.content.count("\n") >= n // 10 for x in t),
    "underscore_run": lambda t, h, n: _cnt(t, "hr") >= 1 or any(x.type == "inline" and len(x.content) >= n // 2 for x in t),
    "unclosed_fence": lambda t, h, n: any(x.type == "fence" and x.content.count("\n") >= n // 10 for x in t),
    "unclosed_html": lambda t, h, n: any(x.type == "html_block" and x.content.count("\n") >= n // 10 for x in t) or "&lt;!--" in h,
    "up_emph_star_a_star": lambda t, h, n: _cnt(t, "strong_open", "em_open") >= 1,
    "blank_lines": lambda t, h, n: _cnt(t, "paragraph_open") >= 2,
    "smart_quotes": lambda t, h, n: h.count("“") >= n // 40,
    "star_run_sp": lambda t, h, n: _cnt(t, "hr") >= 1,
    "replacements": lambda t, h, n: h.count("©") >= n // 60,
}


def floors(tier):
    return {"families_counted": 190, "steps_measured": 1000, "maxnesting_cut_checked": 20}


def sizes(tier):
    top = 4 * (2000 if tier != "thorough" else 25000)
    s, out = 250, []
    while s <= top:
        out.append(s)
        s *= 2
    return out


def measure(meter, md, src, budget, targets):
    meter.target_names = {t: 0 for t in targets}
    meter.start(budget)
    exc = None
    html = None
    try:
        html = md.render(src)
    except StepBudgetExceeded as e:
        exc = ("budget", str(e))
    except RecursionError as e:
        exc = ("recursion", "RecursionError")
    except BaseException as e:  # noqa: BLE001
        exc = ("exception", f"{type(e).__name__}: {e}")
    n = meter.stop()
    return n, meter.calls, meter.backjumps, meter.max_depth, dict(meter.target_names), exc, html


def run_family(ctx, meter, fam, pname, tier, record=True):
    """returns (verdict, detail) with verdict in ok / skipped / violation-key"""
    conf = PRESETS[pname]
    builder, targets, needs = F.FAMILIES[fam]
    md = C.build(conf)
    act = md.get_active_rules()
    allact = set(act["block"]) | set(act["inline"]) | set(act["core"])
    for nd in needs:
        if nd == "typographer":
            if not md.options.get("typographer") or "replacements" not in allact:
                return "skipped", f"needs {nd}"
        elif nd not in allact or (nd == "linkify" and not md.options.get("linkify")):
            return "skipped", f"needs {nd}"
    maxnest = int(md.options["maxNesting"])
    prev = None
    rows = []
    counted = False
    depths = []
    for L in sizes(tier):
        src = F.build(fam, L)
        n_chars = len(src)
        # below 1 000 characters nesting has not yet saturated at maxNesting (work is legitimately super-linear in the depth
        # until the cut applies), so the ratio cap starts there; smaller steps run under an absolute per-character cap that
        # still turns an exponential blow-up into a verdict within milliseconds
        if prev is None or rows[-1]["len"] < SATURATES_AT.get(fam, 1000):
            budget = int(4000 * (n_chars + 16) * (maxnest / 20 + 1))
        else:
            budget = int(RATIO * prev * max(1.0, n_chars / max(1, rows[-1]["len"]) / 2.0) + SLACK)
        cost, calls, jumps, depth, tn, exc, html = measure(meter, md, src, budget, targets)
        if record:
            ctx.count("evaluations")
            ctx.count("steps_measured")
        hit = max(tn.values()) if tn else 0
        rows.append({"len": n_chars, "cost": cost, "per_char": round(cost / max(1, n_chars), 1), "target_entries": hit, "depth": depth})
        if exc:
            kind, msg = exc
            if kind == "budget":
                what = f"{RATIO}x the work of the previous step ({rows[-2]['len']} chars: {rows[-2]['cost']} events)" if len(rows) > 1 and rows[-2]["len"] >= 1000 else "the absolute cap of 4000*(len+16)*(maxNesting/20+1) events"
                return f"superlinear:{fam}", f"step {n_chars} chars exceeded {what}: {msg}; rows={rows}"
            if kind == "recursion":
                return f"recursion:{fam}", f"RecursionError at {n_chars} chars; rows={rows}"
            return f"exception:{fam}", f"{msg} at {n_chars} chars"
        if hit >= max(3, n_chars // 20):
            counted = True
        elif fam in EXPECT and n_chars <= 2500 and not counted:
            try:
                counted = bool(EXPECT[fam](md.parse(src), html, n_chars))
            except Exception:
                counted = False
        depths.append(depth)
        # maxNesting cut-off: emitted token levels stay within maxNesting
        prev = cost
        if record:
            ctx.cmax("max_events_per_char_x10", int(10 * cost / max(1, n_chars)))
            ctx.cmax("max_stack_depth", depth)
    # nesting cut
    if fam in ("up_nested_quotes", "up_nested_brackets", "link_nest", "image_nest", "nested_lists", "quote_list_alternate", "up_quote_emph", "up_deep_list_empty"):
        toks = md.parse(F.build(fam, 3000))
        lvl = max((t.level for t in toks), default=0)
        ilvl = max((c.level for t in toks for c in walk(t.children or [])), default=0)
        if record:
            ctx.count("maxnesting_cut_checked")
            ctx.cmax("max_block_level", lvl)
        if lvl > maxnest + 2 or ilvl > maxnest + 2:
            return f"maxnesting-not-cut:{fam}", f"token level {lvl}/{ilvl} with maxNesting={maxnest}"
    # stack depth must not keep growing with the input length (sampled depth; compare the last step with two steps earlier)
    if len(depths) >= 4 and depths[-1] > 1.5 * depths[-3] + 60 and depths[-1] > 400:
        return f"stack-grows:{fam}", f"sampled stack depth {depths} over lengths {[r['len'] for r in rows]}"
    if not counted:
        return "not-counted", f"target {targets} entered {[r['target_entries'] for r in rows]} times"
    return "ok", rows


def replay(ctx, case):
    meter = Meter(jumps=True, depth_every=64)
    meter.install()
    try:
        v, detail = run_family(ctx, meter, case["family"], case["preset"], case.get("tier", "quick"))
        if v not in ("ok", "skipped", "not-counted"):
            ctx.violation(v, f"{detail} | family={case['family']} preset={case['preset']}"[:1800], case)
    finally:
        meter.uninstall()


def run(ctx):
    meter = Meter(jumps=True, depth_every=64)
    meter.install()
    pairs = [(f, p) for f in F.FAMILIES for p in PRESETS if not (f in F.AUTO_CM_ONLY and p != ("js" if "strikethrough" in F.FAMILIES[f][2] else "cm"))]
    # heavier pairs first so that shards finish together
    for i, (fam, pname) in enumerate(pairs):
        if not ctx.mine(i):
            continue
        ctx.current = {"family": fam, "preset": pname}
        try:
            v, detail = run_family(ctx, meter, fam, pname, ctx.tier)
        except Exception:
            ctx.count("harness_errors")
            traceback.print_exc()
            continue
        if v == "ok":
            ctx.count("families_counted")
            ctx.nontrivial(fam, pname)
            r = detail
            ratios = [round(r[j + 1]["cost"] / max(1, r[j]["cost"]), 2) for j in range(len(r) - 1)]
            ctx.cmax("max_ratio_x100", int(100 * max(ratios[2:] or ratios)))
            ctx.sample({"family": fam, "preset": pname, "lengths": [x["len"] for x in r], "events": [x["cost"] for x in r], "ratios": ratios,
                        "events_per_char": r[-1]["per_char"], "target_entries": r[-1]["target_entries"], "sampled_depth": r[-1]["depth"]}, cap=40)
        elif v == "skipped":
            ctx.count("families_skipped_missing_rule")
        elif v == "not-counted":
            ctx.count("families_not_counted")
            ctx.info.setdefault("not_counted", []).append(f"{fam}/{pname}: {detail}"[:200])
        else:
            ctx.violation(v, f"{detail} | family={fam} preset={pname}"[:1800], {"family": fam, "preset": pname, "tier": ctx.tier})
    meter.uninstall()


@selftest
def _selftest():
    assert sizes("quick") == [250, 500, 1000, 2000, 4000, 8000]
    assert len(F.build("up_a_close_bracket", 1000)) in range(900, 1100)
