"""C17 — equivalent encodings parse identically: line endings, NUL, structural tabs."""
from __future__ import annotations

import itertools
import re

from vf import conf as C
from vf import gen
from vf import workload as W
from vf.selftests import selftest
from vf.util import first_diff, minimize_text, stream, walk

LEVEL = "exploration"
RULE = (
    "cases: (i) document without CR x configuration under LF vs CRLF vs CR vs random per-line mixtures: token streams incl. maps and "
    "HTML must be identical; no CR/NUL in any token field. (ii) NUL vs U+FFFD substituted at random positions (markers, info strings, "
    "URLs, labels): identical streams/HTML. (iii-a) any document: tabs in each line's leading whitespace vs their column-exact space "
    "expansion. (iii-b) ENUMERATED segment construction: lines of up to 3 container segments (indent 0-3, marker in {>, -, 1., 12)}, "
    "1-4 blank columns) + tab-free leaf in {text, ATX, '- z', '> q', indented code, fence, definition, table row}, every blank run in "
    "every space/tab spelling that covers the same columns from the start of the physical line, optionally with a second (lazy / "
    "continuation / indented) line, and continuation lines of nested quotes with their own prefix widths and spellings. Tab twins are compared modulo exactly the statement's allowance: leading whitespace inside "
    "verbatim block lines and after a line break inside inline content, and blank runs of code spans. Non-trivial = twin whose "
    "spellings differ and whose structure has >=1 container; distinct by the two spellings."
    " Also: inline constructs continued on tab-indented lines, and documents of 2-4 constructed lines each with its own spelling."
)
ASSUMPTIONS = ["tab stops every 4 columns counted from the start of the physical line", "allowed-difference normaliser strips leading blanks of verbatim lines and of inline content after a line break, collapses blank runs in code spans"]
NSHARDS = {"quick": 16, "thorough": 32}


def floors(tier):
    q = tier == "quick"
    return {"enc.crlf": 20000 if q else 500000, "enc.cr": 20000 if q else 500000, "enc.mixed": 10000, "nul.twins": 10000, "tab_a.twins": 3000,
            "tab_b.twins": 150000 if q else 3000000, "tab_b.pattern.QQ": 2000, "tab_b.pattern.QL": 2000, "tab_b.pattern.LQ": 2000, "tab_b.pattern.LL": 2000,
            "tab_b.pattern.QQQ": 500, "tab_b.with_container": 100000, "cr_nul_field_checks": 100000, "tab_b.continuation_line_twins": 5000, "tab_a.inline_continuation_twins": 20000, "tab_b.multiline_twins": 30000}


def _norm_label(d):
    """store_labels keeps a label as written: one that continues on the next line carries that line's leading blanks (inline content
    after a line break, like a title or a description continued on the next line)"""
    m = d.get("meta")
    if isinstance(m, dict) and isinstance(m.get("label"), str) and "\n" in m["label"]:
        d["meta"] = dict(m, label=re.sub(r"\n[ \t]+", "\n", m["label"]))


def norm_allow(sd):
    out = []
    for x in sd:
        x = dict(x)
        _norm_label(x)
        if x["type"] in ("code_block", "fence", "html_block"):
            x["content"] = re.sub(r"(?m)^[ \t]+", "", x["content"])
        if x["type"] == "inline":
            x["content"] = re.sub(r"\n[ \t]+", "\n", x["content"])

            def fix(ch):
                for c in ch or []:
                    _norm_label(c)
                    if c["type"] == "code_inline":
                        # blank runs of a span continued on the next line; the one-space padding rule then strips differently
                        c["content"] = re.sub(r"[ \t]+", " ", c["content"]).strip(" ")
                    elif c["type"] == "link_open" and isinstance((c["attrs"] or {}).get("title"), str):
                        # a title continued on the next line is inline content after a line break as well
                        c["attrs"] = dict(c["attrs"], title=re.sub(r"\n[ \t]+", "\n", c["attrs"]["title"]))
                    elif c["type"] in ("image", "text", "html_inline"):
                        c["content"] = re.sub(r"\n[ \t]+", "\n", c["content"])
                        if c["type"] == "image" and isinstance(c["attrs"].get("alt"), str):
                            # alt is text derived from the description at render time: the same allowance applies to it
                            c["attrs"] = dict(c["attrs"], alt=re.sub(r"\n[ \t]+", "\n", c["attrs"]["alt"]))
                        if c["type"] == "image" and isinstance(c["attrs"].get("title"), str):
                            c["attrs"] = dict(c["attrs"], title=re.sub(r"\n[ \t]+", "\n", c["attrs"]["title"]))
                    fix(c.get("children"))
            x["children"] = [dict(c) for c in x["children"]] if x["children"] else x["children"]
            fix(x["children"])
        out.append(x)
    return out


def _has(v):
    if isinstance(v, str):
        return "\r" in v or "\x00" in v
    if isinstance(v, dict):
        return any(_has(k) or _has(x) for k, x in v.items())
    if isinstance(v, (list, tuple)):
        return any(_has(x) for x in v)
    return False


def has_cr_nul(toks):
    for t in walk(toks):
        for f in (t.content, t.markup, t.info, t.tag, t.type):
            if "\r" in f or "\x00" in f:
                return f"{t.type}: {f!r}"
        for k, v in t.attrs.items():
            if isinstance(v, str) and ("\r" in v or "\x00" in v) or ("\r" in k or "\x00" in k):
                return f"{t.type}.attrs[{k!r}]={v!r}"
        if t.meta and _has(t.meta):
            return f"{t.type}.meta={t.meta!r}"
    return None


def parse_render(md, src):
    env = {}
    toks = md.parse(src, env)
    return toks, md.renderer.render(toks, md.options, env), env


def twin(ctx, case, count=True):
    """returns (key, msg) or None"""
    md = W.get_md(case["conf"])
    a, b = case["a"], case["b"]
    try:
        ta, ha, ea = parse_render(md, a)
        tb, hb, eb = parse_render(md, b)
    except Exception:
        if count:
            ctx.count("skipped.exception")
        return None
    kind = case["kind"]
    if kind in ("crlf", "cr", "mixed", "nul"):
        for t, nm in ((ta, "a"), (tb, "b")):
            bad = has_cr_nul(t)
            if count:
                ctx.count("cr_nul_field_checks")
            if bad:
                return "cr-or-nul-in-token", f"{kind}: {bad}"
        d = first_diff(stream(ta), stream(tb))
        if d:
            return f"{kind}:tokens-differ", d
        if ha != hb:
            return f"{kind}:html-differs", f"{ha[:200]!r} vs {hb[:200]!r}"
        if ea != eb:
            return f"{kind}:env-differs", f"{ea!r} vs {eb!r}"[:300]
        return None
    d = first_diff(norm_allow(stream(ta)), norm_allow(stream(tb)))
    if d:
        return f"{kind}:structure-differs", d + f" | html {ha[:160]!r} vs {hb[:160]!r}"
    return None


def check_case(ctx, case, minimize=False):
    ctx.count("evaluations")
    ctx.current = case
    r = twin(ctx, case)
    if r is None:
        return True
    key, msg = r
    if case["kind"].startswith("tab_b"):
        key += ":" + case.get("pattern", "")
    ctx.violation(key, f"{msg} | a={case['a']!r} b={case['b']!r} conf={case['conf']}", case)
    return False


def replay(ctx, case):
    check_case(ctx, case)


def expand_leading(line):
    m = re.match(r"^[ \t]*", line)
    lead = m.group(0)
    col = 0
    for ch in lead:
        col += (4 - col % 4) if ch == "\t" else 1
    return " " * col + line[len(lead):]


def spellings(c0, c1, mixed=True):
    """all spellings of the blank run covering columns [c0, c1) with spaces and tabs"""
    out = []

    def rec(col, s):
        if col == c1:
            out.append(s)
            return
        rec(col + 1, s + " ")
        nxt = col + 4 - col % 4
        if nxt <= c1:
            rec(nxt, s + "\t")
    rec(c0, "")
    if not mixed:
        out = [s for s in out if "\t" not in s or not s.rstrip("\t").count("\t")]
    return out


MARKERS = [">", "-", "1.", "12)"]
LEAVES = ["x", "# h", "- z", "> q", "    code", "```", "[r]: /u", "|a|b|", "* * *", "<div>"]
SECOND = [None, "lazy", "  two", "      six", "> q2", "- i2", "\tt", ""]


def variants(segs, leaf):
    res = [""]
    col = 0
    for ind, m, bl in segs:
        a = spellings(col, col + ind)
        col += ind + len(m)
        b = spellings(col, col + bl)
        col += bl
        res = [r + x + m + y for r in res for x in a for y in b]
    return [r + leaf for r in res]


def run(ctx):
    rng = ctx.rng
    # ---- (i) + (ii) + (iii-a) on documents -----------------------------------------------------------------------
    n = ctx.scale(40000, 1200000)
    for kind_, conf, src in W.documents(ctx, n, lines=True, lines_confs=[W.PANEL[0], W.PANEL[2]]):
        src = src.replace("\r", "")
        if not src:
            continue
        base = {"conf": conf}
        v = src.replace("\n", "\r\n")
        if v != src:
            ctx.count("enc.crlf")
            check_case(ctx, dict(base, kind="crlf", a=src, b=v))
            ctx.count("enc.cr")
            check_case(ctx, dict(base, kind="cr", a=src, b=src.replace("\n", "\r")))
            if kind_ != "lines":
                ls = src.split("\n")
                v = "".join(l + (rng.choice(["\n", "\r\n", "\r"]) if i + 1 < len(ls) else "") for i, l in enumerate(ls))
                if re.sub(r"\r\n?", "\n", v) == src:
                    ctx.count("enc.mixed")
                    check_case(ctx, dict(base, kind="mixed", a=src, b=v))
                    ctx.nontrivial("enc", src, v)
        if kind_ != "lines" and rng.random() < 0.5:
            s = src.replace("\x00", "").replace("�", "")
            if s:
                pos = sorted(rng.sample(range(len(s) + 1), min(len(s) + 1, rng.randint(1, 4))))
                a, b, last = [], [], 0
                for p in pos:
                    a.append(s[last:p] + "\x00")
                    b.append(s[last:p] + "�")
                    last = p
                ctx.count("nul.twins")
                check_case(ctx, dict(base, kind="nul", a="".join(a) + s[last:], b="".join(b) + s[last:]))
                ctx.nontrivial("nul", s, tuple(pos))
        if "\t" in src:
            v = "\n".join(expand_leading(l) for l in src.split("\n"))
            if v != src:
                ctx.count("tab_a.twins")
                check_case(ctx, dict(base, kind="tab_a", a=v, b=src))
                ctx.nontrivial("tab_a", src)
    # dedicated leading-tab documents for (iii-a)
    lead = ["\t", " \t", "  \t", "   \t", "\t\t", "\t ", " \t ", "\t  \t", "    \t"]
    body = ["x", "- a", "> q", "1. n", "```", "code", "# h", "* * *", "[r]: /u", "|a|b|", "-|-", "<div>", "", ">", "-"]
    for _ in range(ctx.scale(30000, 800000)):
        ls = []
        for _i in range(rng.randint(1, 5)):
            pre = rng.choice(["", "", "> ", "- ", ">", "1. ", "> - "])
            # tabs only in the leading whitespace of the physical line
            l = (rng.choice(lead) if rng.random() < 0.6 else rng.choice(["", " ", "  ", "    "])) + pre + rng.choice(body)
            ls.append(l)
        src = "\n".join(ls) + "\n"
        v = "\n".join(expand_leading(l) for l in src.split("\n"))
        if v != src:
            ctx.count("tab_a.twins")
            check_case(ctx, {"kind": "tab_a", "conf": rng.choice([W.PANEL[0], W.PANEL[2], W.PANEL[1], W.PANEL[4]]), "a": v, "b": src})
    # inline constructs continued on an indented next line (title, destination, label, code span, raw HTML on the continuation line):
    # the continuation line's indentation is spelled with tabs vs the column-exact spaces, inside quotes and list items too
    CONT = ['[t](/u\n{L}"title") z', "[t](\n{L}/u\n{L}'ti') z", "![i](/s\n{L}(t)) z", '[r]: /u\n{L}"title"\n\n[r]', "[r]:\n{L}/u\n{L}'t'\n\n[r]", "`a\n{L}b` z",
            "*a\n{L}b* z", "[t\n{L}t2](/u) z", 'a <b\n{L}c="d"> z', "[t][r\n{L}s]\n\n[r s]: /u", "a\\\n{L}b", "a  \n{L}b", "**a\n{L}**b**", '[t](/u "a\n{L}b") z',
            "![a\n{L}b](/s\n{L}'t')", "[r]:\n{L}* 'title'\n\n[r]", "[r]:\n{L}> 'q'\n\n[r]", "[r]:\n{L}# 'h'\n\n[r]", "[r]:\n{L}1. 'o'\n\n[r]", "[r]: /u\n{L}'- t'\n\n[r]",
            "a\n{L}_b_ z", "a\n{L}**[x](u)** z", "a\n{L}~~(x)~~ z", "a\n{L}*`c`* z", "a\n{L}__b__\n{L}*c*", "a \"\n{L}'q' b\"", '[t](<u>\n{L}"x"\n{L}) z', "[a](/1\n{L}'p') [b](/2\n{L}(q))"]
    runs = ["\t", " \t", "  \t", "   \t", "\t\t", "\t ", " \t ", "\t  \t", "    \t", "  \t  "]
    for k in range(ctx.scale(30000, 800000)):
        tmpl = rng.choice(CONT)
        pre1, pren = rng.choice([("", ""), ("", ""), ("> ", "> "), ("> ", ">"), ("- ", "  "), ("1. ", "   "), ("> - ", ">   "), ("> > ", "> > "), ("> ", "")])
        la, lb = [], []
        for i, l in enumerate(tmpl.split("\n")):
            pre = pre1 if i == 0 else (pren if l.strip() else pren.rstrip())
            if "{L}" in l:
                run_ = rng.choice(runs)
                col, sp = len(pre), ""
                for ch in run_:
                    w = (4 - col % 4) if ch == "\t" else 1
                    sp += " " * w
                    col += w
                la.append(pre + l.replace("{L}", sp))
                lb.append(pre + l.replace("{L}", run_))
            else:
                la.append(pre + l)
                lb.append(pre + l)
        a, b = "\n".join(la) + "\n", "\n".join(lb) + "\n"
        ctx.count("tab_a.twins")
        ctx.count("tab_a.inline_continuation_twins")
        # (configurations in which '>' and list markers are markers: in the 'zero' preset the blanks after them are paragraph text)
        if check_case(ctx, {"kind": "tab_a", "conf": rng.choice([W.PANEL[0], W.PANEL[2], W.PANEL[1], W.PANEL[5]]), "a": a, "b": b}):
            ctx.nontrivial("tab_cont", a, b)
    # ---- (iii-b) on documents of 2-4 constructed lines: every line has its own segments and its own spelling ----------
    # ('12)' is left out: an ordered marker other than 1 cannot interrupt a paragraph, so on a later line it is often paragraph text
    # and the blanks after it are not structural)
    segspace0 = [(i, m, b) for i in range(4) for m in MARKERS[:3] for b in range(1, 5)]
    qsegs = [s for s in segspace0 if s[1] == ">"]
    mconf = {"preset": "commonmark", "enable": ["table"]}
    for k in range(ctx.scale(60000, 2000000)):
        la, lb = [], []
        quoteish = rng.random() < 0.6
        nl = rng.randint(2, 4)
        for i in range(nl):
            while True:
                segs = [rng.choice(qsegs if quoteish and rng.random() < 0.85 else segspace0) for _ in range(rng.choice([1, 1, 2]))]
                if all(segs[j][2] + segs[j + 1][0] <= 4 for j in range(len(segs) - 1)):
                    break
            if rng.random() < 0.12:
                # a line without any container (plain text, a table row): the following constructed line may or may not interrupt it
                la.append(rng.choice(["foo", "a | b", "| a | b |", "t"]))
                lb.append(la[-1])
                continue
            # (a fence is opened on the last line only: inside an open fence later lines are verbatim, their blanks not structural)
            leaves = ["x", "x", "- z", "    c", "# h", "```" if i == nl - 1 else "x", "> q", "[r]: /u",
                      # (an empty list item cannot interrupt a paragraph: its marker and blanks would be paragraph text -
                      # except on the last line, where nothing follows that a hard break could be seen in)
                      "" if (segs[-1][1] == ">" or i == nl - 1) else "x"]
            if len(segs) == 1 and segs[0][1] == "-" and la and la[-1] in ("a | b", "| a | b |"):
                # a would-be delimiter row behind a bullet, directly after a table-row-like plain line (anywhere else a line with
                # pipes makes the table rule take the *previous* line as its header row, '>' markers included)
                leaves += ["| -", "| - |", "| :-"] * 3
            vs = variants(segs, rng.choice(leaves))
            la.append(vs[0])
            lb.append(rng.choice(vs))
        if la == lb:
            continue
        a, b = "\n".join(la) + "\n", "\n".join(lb) + "\n"
        ctx.count("tab_b.twins")
        ctx.count("tab_b.multiline_twins")
        if check_case(ctx, {"kind": "tab_b", "conf": mconf, "a": a, "b": b, "pattern": "multiline"}):
            ctx.nontrivial("tab_multi", a, b)
    # ---- (iii-b) segment construction, enumerated --------------------------------------------------------------------
    segspace = [(i, m, b) for i in range(4) for m in MARKERS for b in range(1, 5)]
    idx = 0
    conf = {"preset": "commonmark", "enable": ["table"]}
    md = W.get_md(conf)
    for nseg in (1, 2, 3):
        for segs in itertools.product(segspace, repeat=nseg):
            if nseg == 3 and (segs[0][0] > 1 or segs[1][0] > 1 or segs[2][0] > 0 or segs[1][1] == "12)" or segs[2][1] == "12)"):
                continue
            # a marker followed by 5+ blank columns does not open a container for what follows (it is indented code, i.e. verbatim):
            # keep every later segment's indentation within 0-3 columns of its container's content start
            if any(segs[i][2] + segs[i + 1][0] > 4 for i in range(nseg - 1)):
                continue
            idx += 1
            if not ctx.mine(idx):
                continue
            pattern = "".join("Q" if s[1] == ">" else "L" for s in segs)
            for li, leaf in enumerate(LEAVES):
                if nseg == 3 and ctx.quick and (li + idx) % 3:
                    continue
                vs = variants(segs, leaf)
                if len(vs) < 2:
                    continue
                seconds = [None] if ctx.quick else SECOND
                if ctx.quick and nseg <= 2 and idx % 5 == 0:
                    seconds = [None, rng.choice(SECOND[1:])]
                for sec in seconds:
                    tail = "\n" if sec is None else "\n" + sec + "\n"
                    base = vs[0] + tail
                    try:
                        tb = norm_allow(stream(md.parse(base)))
                    except Exception:
                        continue
                    container = any(x["type"] in ("blockquote_open", "bullet_list_open", "ordered_list_open") for x in tb)
                    for v in vs[1:]:
                        ctx.count("evaluations")
                        ctx.count("tab_b.twins")
                        ctx.count("tab_b.pattern." + pattern)
                        if container:
                            ctx.count("tab_b.with_container")
                        try:
                            tv = norm_allow(stream(md.parse(v + tail)))
                        except Exception:
                            continue
                        if tv != tb:
                            d = first_diff(tb, tv)
                            case = {"kind": "tab_b", "conf": conf, "a": base, "b": v + tail, "pattern": pattern}
                            ctx.violation("tab_b:structure-differs:" + pattern, f"{d} | spaces={base!r} tabs={v + tail!r} html {md.render(base)[:120]!r} vs {md.render(v + tail)[:120]!r}", case)
                    if container:
                        ctx.nontrivial("tab_b", segs, leaf, sec)
            if idx % 997 == 0:
                ctx.sample({"kind": "tab_b", "segments": segs, "leaf": LEAVES[idx % len(LEAVES)], "spellings": variants(segs, "x")[:4]})
    # ---- (iii-b) on continuation lines: the second line of a nested quote has its own prefix widths and its own tab spellings ----
    qseg = [(i, ">", b) for i in range(4) for b in range(1, 5)]
    firsts = [(a, b) for a in qseg for b in qseg if a[0] <= 1 and a[2] <= 2 and b[0] <= 1 and b[2] <= 2 and a[2] + b[0] <= 4]
    for f_i, fsegs in enumerate(firsts):
        l1 = variants(fsegs, "a")[0]
        for segs in itertools.product(qseg, repeat=2):
            if segs[0][2] + segs[1][0] > 4:
                continue
            idx += 1
            if not ctx.mine(idx):
                continue
            if ctx.quick and (idx // ctx.nshards) % 3:
                continue
            for leaf in ("b", "- z", "    c", "```"):
                vs = variants(segs, leaf)
                base = l1 + "\n" + vs[0] + "\n"
                try:
                    tb = norm_allow(stream(md.parse(base)))
                except Exception:
                    continue
                for v in vs[1:]:
                    ctx.count("evaluations")
                    ctx.count("tab_b.twins")
                    ctx.count("tab_b.continuation_line_twins")
                    doc = l1 + "\n" + v + "\n"
                    try:
                        tv = norm_allow(stream(md.parse(doc)))
                    except Exception:
                        continue
                    if tv != tb:
                        ctx.violation("tab_b:structure-differs:continuation", f"{first_diff(tb, tv)} | spaces={base!r} tabs={doc!r} html {md.render(base)[:120]!r} vs {md.render(doc)[:120]!r}",
                                      {"kind": "tab_b", "conf": conf, "a": base, "b": doc, "pattern": "continuation"})
                ctx.nontrivial("tab_b2", fsegs, segs, leaf)
    ctx.info["exhaustive_part"] = ("(iii-b): all 1- and 2-segment lines over indent 0-3 x markers {>,-,1.,12)} x 1-4 blank columns and the restricted 3-segment space "
                                   "(indents <=1,<=1,0), every leaf, every space/tab spelling; quick samples leaves for 3 segments and second lines")


@selftest
def _selftest():
    assert spellings(1, 4) == ["   ", "\t"] or set(spellings(1, 4)) == {"   ", "  \t", " \t", "\t"}
    assert set(spellings(2, 4)) == {"  ", " \t", "\t"}
    assert expand_leading(" \tx\ty") == "    x\ty"
    from markdown_it import MarkdownIt
    md = MarkdownIt()
    a = norm_allow(stream(md.parse(">\t>\t- x\n")))
    b = norm_allow(stream(md.parse(">   >   - x\n")))
    assert a == b
