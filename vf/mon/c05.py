"""C05 — emitted link/image URLs are normalised and never carry a dangerous scheme."""
from __future__ import annotations

import html as htmlmod
import re

from vf import conf as C
from vf import gen
from vf import workload as W
from vf.selftests import selftest
from vf.util import walk

LEVEL = "exploration"
RULE = (
    "cases = (producer template, destination spelling, configuration): dangerous and benign schemes spelled with case mixes, "
    "decimal/hex/named character references, backslash escapes, leading/trailing blanks and controls x rests x producers {inline "
    "link bare/<>, image, autolink, reference definition used as link and image, core linkify and inline linkify through a hostile "
    "stub} x html on/off, plus corpus (xss.md, proto.md, punycode.md) and random documents, plus validateLink(normalizeLink(u)) on "
    "arbitrary Unicode strings. Oracle: every href/src on link_open/image tokens and (html off) in rendered HTML must be URL-safe "
    "percent-encoded ASCII without javascript:/vbscript:/file:/data:(non-image) scheme when read as a browser does; a template "
    "that yields no link must render exactly as it does with the link-producing rules disabled (left as literal text). "
    "Non-trivial = case in which a URL was emitted or a destination was rejected; distinct by (template, destination, conf id)."
    " Also: a definition of an already defined label with a rejected destination must render like the same two definitions in the other order (left as literal text)."
)
ASSUMPTIONS = [
    "browser reading of a scheme: strip leading code points <= U+0020, delete tab/CR/LF, compare case-insensitively",
    "linkifier = hostile stub (reports javascript:/data: candidates); linkify-it-py's own matching is out of scope",
    "HTML attributes are inspected only for html=False configurations (with html on, raw HTML legitimately passes through)",
]
SAFE_RE = re.compile(r"^(?:[A-Za-z0-9;/?:@&=+$,\-_.!~*'()#]|%[0-9A-Fa-f]{2})*\Z")   # \Z, not $: '$' would accept a trailing line feed
BAD_RE = re.compile(r"^(javascript|vbscript|file|data):")
GOOD_DATA = re.compile(r"^data:image/(gif|png|jpeg|webp)(;|,|\Z)")
ATTR_RE = re.compile(r'<(a|img)((?: [A-Za-z-]+="[^"]*")*)( /)?>')
HREF_RE = re.compile(r' (href|src)="([^"]*)"')

PRODUCERS = ["inline", "inline_angle", "image", "image_angle", "autolink", "ref_link", "ref_image", "ref_angle", "linkify_core", "linkify_inline"]


def floors(tier):
    f = {"urls.token": 50000, "urls.html": 20000, "literal_twins_compared": 20000, "method_composition": 20000, "scheme_spellings_distinct": 500, "autolink.email": 2000, "long_destinations": 1000, "duplicate.cases": 1500, "plain_relative_lookalikes": 1500}
    for p in PRODUCERS:
        f["emitted." + p] = 200
        f["rejected." + p] = 200 if not p.startswith("linkify") else 50
    return f


def url_problem(u):
    if not isinstance(u, str):
        return "non-str", f"URL attribute is {type(u).__name__}"
    if not SAFE_RE.match(u):
        return "not-url-safe", f"{u!r} is not percent-encoded URL-safe ASCII"
    b = "".join(ch for ch in u.lstrip("".join(map(chr, range(0x21)))) if ch not in "\t\r\n").lower()
    if BAD_RE.match(b) and not GOOD_DATA.match(b):
        return "dangerous-scheme", f"{u!r} reads as {b[:40]!r}"
    return None


def observe_tokens(ctx, toks):
    errs = []
    n = 0
    for t in walk(toks):
        if t.type == "link_open":
            u = t.attrs.get("href")
        elif t.type == "image":
            u = t.attrs.get("src")
        else:
            continue
        n += 1
        ctx.count("urls.token")
        p = url_problem(u)
        if p:
            errs.append((p[0] + "@token", f"{t.type} {p[1]}"))
    return errs, n


def observe_html(ctx, html):
    errs = []
    for m in ATTR_RE.finditer(html):
        for an, av in HREF_RE.findall(m.group(2)):
            ctx.count("urls.html")
            p = url_problem(htmlmod.unescape(av))
            if p:
                errs.append((p[0] + "@html", f"<{m.group(1)} {an}> {p[1]}"))
    return errs


# ---- destination spellings ------------------------------------------------------------------------
NAMED = {":": ["&colon;"], "\t": ["&Tab;"], "\n": ["&NewLine;"], "(": ["&lpar;"], ")": ["&rpar;"], "/": ["&sol;"], ";": ["&semi;"], ",": ["&comma;"]}
BAD_SCHEMES = ["javascript", "vbscript", "file", "data"]
RESTS = ["alert(1)", "alert&lpar;1&rpar;", "//host/p", "///etc/passwd", "image/png;base64,iVBOR", "IMAGE/GIF;x", "image/svg+xml,<svg/onload=1>",
         "image/jpeg,zz", "image/webp;", "image/pngx;1", "text/html,<b>", "text/html;base64,PHN2Zz4=", "x%zz", "%", "x\"y", "x'y", "a b", "x[1]", "",
         "%0aalert(1)", "\\u0061",
         # an allow-listed or harmless prefix later in the URL must not redeem a dangerous scheme
         "alert(1)//data:image/png;base64,x", "x?data:image/gif;", "1;data:image/jpeg;", "#data:image/webp;x", "//http://a.b/", "x&#10;data:image/png;",
         "text/html,data:image/png;", "image/png", "image/gif", "image/png:", "IMAGE/PNG;", "image/png;", "image/jpeg;x"]
GOOD = ["http://a.b/c?d=e&f#g", "https://ü.com/é", "HTTP://EXAMPLE.COM/%41%zz", "mailto:a@b.c", "/rel/path", "#frag", "//x.y/z", "ftp://f.g/h(i)",
        "data:image/png;base64,iVBOR", "DATA:IMAGE/GIF;x", "data:image/webp;x", "tel:+123", "x-y.z:opaque", "http://[::1]/", "http://a.b/\\*c", "?q=ü&r=%",
        "http://ex.com/" + "\U0001f600", "skype:name", "http://a.b/c&amp;d", "http://%ZZ.com/"]
PREFIX = ["", "", "", " ", "\t", "&#1;", "&#x1f;", "&Tab;", "&NewLine;", "&#32;", "%20", " ", "\x01", "\x0c", "&#xa0;", "&nbsp;", "\\ ", "%09"]
SUFFIX_IN = ["", "", "", "&Tab;", "&#10;", "&#x0d;", "\x01", "&#0;", "\\"]


def spell_char(rng, ch, allow_ws):
    r = rng.random()
    if r < 0.45:
        return ch.upper() if rng.random() < 0.4 else ch
    if r < 0.6:
        return f"&#{ord(ch.upper() if rng.random() < 0.3 else ch)};"
    if r < 0.75:
        return f"&#x{ord(ch):x};" if rng.random() < 0.5 else f"&#X{ord(ch):X};"
    if r < 0.85 and ch in NAMED:
        return rng.choice(NAMED[ch])
    if r < 0.92 and not ch.isalnum():
        return "\\" + ch
    if r < 0.97 and allow_ws:
        return ch + rng.choice(SUFFIX_IN)
    return ch


def bad_dest(rng):
    sch = rng.choice(BAD_SCHEMES)
    s = "".join(spell_char(rng, ch, True) for ch in sch) + spell_char(rng, ":", False)
    return rng.choice(PREFIX) + s + rng.choice(RESTS)


TEMPLATES = {
    "inline": ["[t]({d})", "[t]({d} \"title\")", "a [t *e*]({d}) b", "[see [x]({d}) too]", "[o [i]({d}) p](/outer)", "![alt [x]({d}) y](/img)"],
    "inline_angle": ["[t](<{d}>)", "[t](<{d}> 'ti')"],
    "image": ["![t]({d})", "![t *e*]({d} \"ti\")"],
    "image_angle": ["![t](<{d}>)"],
    "autolink": ["<{d}>", "a <{d}> b"],
    "ref_link": ["[r]: {d}\n\n[t][r]", "[r]: {d} 'ti'\n\n[r]"],
    "ref_image": ["[r]: {d}\n\n![t][r]"],
    "ref_angle": ["[r]: <{d}>\n\n[t][r] ![i][r]"],
    "linkify_core": ["see {d} now", "{d}", "\\*www.example.com and {d}", "&amp;a@b.co then {d} and www.x.yz", "\\_m@n.op {d}"],
    "linkify_inline": ["x {d} y", "{d}"],
}
DISABLE_FOR = {
    "inline": ["link"], "inline_angle": ["link"], "image": ["image", "link"], "image_angle": ["image", "link"], "autolink": ["autolink"],
    "ref_link": ["reference", "link"], "ref_image": ["reference", "image", "link"], "ref_angle": ["reference", "image", "link"],
    "linkify_core": ["linkify"], "linkify_inline": ["linkify"],
}
BASES = [
    {"preset": "commonmark"}, {"preset": "js-default"}, {"preset": "commonmark", "options": {"html": False}},
    {"preset": "js-default", "options": {"html": True}},
]
LBASES = [{"preset": "gfm-like", "stub_linkify": True}, {"preset": "gfm-like", "stub_linkify": True, "options": {"html": False}},
          {"preset": "js-default", "options": {"linkify": True}, "enable": ["linkify"], "stub_linkify": True}]


def template_case(ctx, prod, tmpl, dest, conf):
    case = {"kind": "template", "producer": prod, "template": tmpl, "dest": dest, "conf": conf}
    ctx.current = case
    ctx.count("evaluations")
    src = tmpl.replace("{d}", dest) + "\n"
    md = W.get_md(conf)
    env = {}
    try:
        toks = md.parse(src, env)
        html = md.renderer.render(toks, md.options, env)
    except Exception:
        ctx.count("skipped.exception")
        return
    errs, nurl = observe_tokens(ctx, toks)
    if not md.options.get("html"):
        errs += observe_html(ctx, html)
    if nurl:
        ctx.count("emitted." + prod)
    else:
        ctx.count("rejected." + prod)
        # left as literal text: exactly the render without the link-producing rules of this template
        if not any(ch in dest for ch in "[]") and not (prod == "autolink" and any(ch in dest for ch in "<>")):
            twin_conf = dict(conf)
            twin_conf["disable"] = sorted(set(conf.get("disable", [])) | set(DISABLE_FOR[prod]))
            if "enable" in twin_conf:
                twin_conf["enable"] = [r for r in twin_conf["enable"] if r not in DISABLE_FOR[prod]]
            md2 = W.get_md(twin_conf)
            try:
                html2 = md2.render(src)
            except Exception:
                html2 = None
            if html2 is not None:
                ctx.count("literal_twins_compared")
                if html != html2:
                    errs.append(("rejected-not-literal", f"rejected construct is not left as literal text: {html!r} vs rules-off twin {html2!r}"))
                if "<a" in html and not md.options.get("html") or "<img" in html and not md.options.get("html"):
                    errs.append(("rejected-but-tag", f"no link token yet <a>/<img> in output {html!r}"))
    ctx.nontrivial(prod, tmpl, dest, C.conf_id(conf))
    for key in sorted({k for k, _ in errs}):
        msg = next(m for k, m in errs if k == key)
        ctx.violation(f"{key}:{prod}", f"{msg} | src={src!r} conf={conf}", case)


# (document with the accepted definition first, the same document with it last: in the second one the rejected definition's label is
# still fresh when the block parser meets it; inline content is resolved after all blocks, so both must render alike)
DUP_TEMPLATES = [("[{L}]: /ok\n\n[{L}]: {d}\n\n[t][{L}]", "[{L}]: {d}\n\n[{L}]: /ok\n\n[t][{L}]"),
                 ("[{L}]: /ok 'ti'\n[{l}]: {d}\n[{L}]: {d} \"t2\"\n\n![i][{L}]", "[{l}]: {d}\n[{L}]: {d} \"t2\"\n[{L}]: /ok 'ti'\n\n![i][{L}]"),
                 ("> [{L}]: /ok\n>\n> [{l}]: <{d}>\n\n[{L}]", "> [{l}]: <{d}>\n>\n> [{L}]: /ok\n\n[{L}]"),
                 ("[{L}]: /ok\n\n- [{l}]:\n  {d}\n\n[{L}]", "- [{l}]:\n  {d}\n\n[{L}]: /ok\n\n[{L}]")]


def duplicate_case(ctx, tmpl_pair, dest, conf):
    """a rejected destination in a definition whose label is ALREADY defined is left as literal text exactly like one with a fresh label"""
    case = {"kind": "duplicate", "templates": list(tmpl_pair), "dest": dest, "conf": conf}
    ctx.current = case
    ctx.count("evaluations")
    md = W.get_md(conf)
    outs = []
    for t in tmpl_pair:
        src = t.replace("{L}", "Foo Bar").replace("{l}", "foo  bar").replace("{M}", "other").replace("{d}", dest) + "\n"
        env = {}
        try:
            toks = md.parse(src, env)
            outs.append((md.renderer.render(toks, md.options, env), src, toks))
        except Exception:
            ctx.count("skipped.exception")
            return
    errs, nurl = observe_tokens(ctx, outs[0][2])
    # the rejected definition must not have been recorded in either document
    if any("ok" not in str(t.attrs.get("href", t.attrs.get("src", "ok"))) for t in walk(outs[0][2]) if t.type in ("link_open", "image")):
        ctx.count("duplicate.bad_dest_accepted")   # judged by observe_tokens above
    # only destinations that the fresh-label document shows to be rejected (there the last paragraph resolves to /ok); an accepted
    # destination legitimately makes the order of the definitions matter
    urls2 = [str(t.attrs.get("href", t.attrs.get("src"))) for t in walk(outs[1][2]) if t.type in ("link_open", "image")]
    if not urls2 or any(u != "/ok" for u in urls2):
        ctx.count("duplicate.dest_accepted_skipped")
        return
    ctx.count("duplicate.cases")
    if outs[0][0] != outs[1][0] and not any(ch in dest for ch in "[]<>"):
        errs.append(("rejected-not-literal", f"a rejected definition of an already defined label renders {outs[0][0]!r}, with a fresh label {outs[1][0]!r}"))
    ctx.nontrivial("dup", tmpl_pair[0], dest, C.conf_id(conf))
    for key in sorted({k for k, _ in errs}):
        msg = next(m for k, m in errs if k == key)
        ctx.violation(f"{key}:ref_duplicate", f"{msg} | src={outs[0][1]!r} conf={conf}", case)


def doc_case(ctx, conf, src):
    case = {"kind": "doc", "conf": conf, "src": src}
    ctx.current = case
    ctx.count("evaluations")
    md = W.get_md(conf)
    env = {}
    try:
        toks = md.parse(src, env)
        html = md.renderer.render(toks, md.options, env)
    except Exception:
        ctx.count("skipped.exception")
        return
    errs, nurl = observe_tokens(ctx, toks)
    if not md.options.get("html"):
        errs += observe_html(ctx, html)
    if nurl:
        ctx.nontrivial("doc", src, C.conf_id(conf))
        ctx.count("docs_with_urls")
    for key in sorted({k for k, _ in errs}):
        msg = next(m for k, m in errs if k == key)
        ctx.violation(f"{key}:doc", f"{msg} | src={src[:300]!r} conf={conf}", case)


def method_case(ctx, u):
    case = {"kind": "method", "u": u}
    ctx.current = case
    ctx.count("evaluations")
    from markdown_it import MarkdownIt
    md = W.get_md({"preset": "commonmark"})
    try:
        n = md.normalizeLink(u)
    except Exception:
        ctx.count("method.normalize_raised")
        return
    ctx.count("method_composition")
    if md.validateLink(n):
        p = url_problem(n)
        if p:
            ctx.violation(f"{p[0]}:method", f"validateLink(normalizeLink({u!r})) accepted {p[1]}", case)
        ctx.count("method.accepted")
    else:
        ctx.count("method.rejected")
        ctx.nontrivial("method", u)


def replay(ctx, case):
    if case["kind"] == "template":
        template_case(ctx, case["producer"], case["template"], case["dest"], case["conf"])
    elif case["kind"] == "doc":
        doc_case(ctx, case["conf"], case["src"])
    elif case["kind"] == "duplicate":
        duplicate_case(ctx, tuple(case["templates"]), case["dest"], case["conf"])
    else:
        method_case(ctx, case["u"])


def run(ctx):
    rng = ctx.rng
    spellings = set()
    n = ctx.scale(400000, 10000000)
    for k in range(n):
        prod = PRODUCERS[k % len(PRODUCERS)]
        if rng.random() < 0.65:
            d = bad_dest(rng)
            spellings.add(d.split(":")[0][:40])
        else:
            d = rng.choice(PREFIX[:6]) + rng.choice(GOOD)
        if prod == "linkify_inline":
            # the inline rule fires on '://'
            sch = rng.choice(BAD_SCHEMES + ["http", "https", "ftp", "JavaScript", "FILE"])
            d = sch + "://" + rng.choice(["a.b/c", "%0aalert(1)", "/etc/passwd", "x.y/z*", "h.i/j?k=l&m", "a.b/'q'", "é.com/ü"])
        elif prod == "linkify_core":
            if rng.random() < 0.6:
                d = rng.choice(["javascript:alert(1)", "JaVaScRiPt:alert(1)", "data:text/html,x", "DATA:image/svg+xml,x", "vbscript:x", "file:c:/x",
                                "www.ex.com/a?b=c&d", "a@b.co", "mailto:x@y.zz", "data:image/png;base64,xx", "www.é.com/ü"])
        if prod in ("inline", "image", "ref_link", "inline_angle") and rng.random() < 0.08:
            # long destinations (caches and fast paths are often keyed on size)
            sch = rng.choice(["data:text/html;base64,", "javascript:", "DATA:image/svg+xml,", "data:image/png;base64,", "http://a.b/"])
            d = sch + "A" * rng.choice([1000, 1024, 1100, 4000, 4096, 4200]) + rng.choice(["", "", "=", "==", "&#10;", "&NewLine;", "&#xA;", "&Tab;", "%0A", "\\"])
            ctx.count("long_destinations")
        if prod in ("inline", "image", "ref_link", "ref_image") and rng.random() < 0.06:
            # plain relative destinations with the letters that case-insensitive ASCII classes also match, and other look-alikes
            d = rng.choice(["notes/273\u212a.html", "#\u017fection", "\u0131ndex.html", "a/\u0130.png", "../\u212b/x", "p\uff41ge.html", "\u00b5.txt", "x/\u2160.md", "./\u00aa-b_c"])
            ctx.count("plain_relative_lookalikes")
        if prod == "autolink" and rng.random() < 0.3:
            # e-mail autolinks: the local part may hold characters that are not URL-safe
            d = rng.choice(["a{b@example.com", "100%@ex.com", "x|y@z.co", "q^r@s.tu", "a`b@c.de", "u}v@w.xy", "p%zz@q.rs", "ok@host.example", "A.B+c@d-e.fg", "a!#$&'*/=?b@c.d"])
            ctx.count("autolink.email")
        conf = rng.choice(LBASES if prod.startswith("linkify") else BASES + LBASES[:1])
        tmpl = rng.choice(TEMPLATES[prod])
        ctx.sample({"producer": prod, "src": tmpl.replace("{d}", d), "conf": conf}, every=4999)
        template_case(ctx, prod, tmpl, d, conf)
    # long destinations, systematically: every producer x scheme x length around 1 KiB and 4 KiB x way of ending
    k = 0
    for prod in ("inline", "image", "ref_link", "ref_image", "inline_angle", "image_angle", "autolink"):
        for sch in ("data:text/html;base64,", "javascript:", "DATA:image/svg+xml,", "data:image/png;base64,", "data:image/gif;base64,", "http://a.b/", "/rel/"):
            for n in (1000, 1023, 1024, 1100, 4000, 4095, 4096, 4200, 9000):
                for tail in ("", "=", "==", "&#10;", "&NewLine;", "&#xA;", "&Tab;", "%0A", "\\", "&amp;", "é", "\\)"):
                    k += 1
                    if not ctx.mine(k) or (prod == "autolink" and ("&" in tail or "\\" in tail)):
                        continue
                    ctx.count("long_destinations")
                    template_case(ctx, prod, TEMPLATES[prod][k % len(TEMPLATES[prod])], sch + "A" * n + tail, BASES[k % len(BASES)])
    for _ in range(ctx.scale(14000, 300000)):
        duplicate_case(ctx, rng.choice(DUP_TEMPLATES), bad_dest(rng) if rng.random() < 0.8 else rng.choice(["/fine", "data:image/png;base64,xx", "http://a.b/c"]), rng.choice(BASES))
    ctx.counters["scheme_spellings_distinct"] += len(spellings)
    # corpus + random documents
    sec = [t for nme, t in gen.corpus() if nme.startswith(("xss.md", "proto.md", "punycode.md", "linkify.md", "normalize.md"))]
    for _ in range(ctx.scale(60000, 2000000)):
        r = rng.random()
        if r < 0.3 and sec:
            src = rng.choice(sec)
            if rng.random() < 0.5:
                src = src[: rng.randint(0, len(src))]
        else:
            src = gen.strip_surrogates(gen.any_doc(rng))[:4000]
        doc_case(ctx, C.sample(rng), src)
    # the two public methods in the composition the parser uses
    for _ in range(ctx.scale(120000, 3000000)):
        r = rng.random()
        if r < 0.4:
            u = gen.strip_surrogates(gen.uni_text(rng, rng.randint(0, 6)) + rng.choice(BAD_SCHEMES + ["http", "x"]) + rng.choice([":", "&#58;", " :", ":\t"]) + gen.uni_text(rng, rng.randint(0, 8)))
        elif r < 0.7:
            u = gen.strip_surrogates(gen.uni_text(rng, rng.randint(0, 20)))
        else:
            u = "".join(rng.choice(["%", "%4", "%41", "%zz", ":", "/", "?", "#", "@", "[", "]", "é", " ", "\t", "\n", "javascript", "DATA", "a", "\\", "&", "\x00", "\x7f"]) for _ in range(rng.randint(0, 12)))
        method_case(ctx, u)


@selftest
def _selftest():
    assert url_problem("http://a.b/%C3%A9?x=1&y#z") is None
    assert url_problem("data:image/png;base64,xx") is None
    assert url_problem("JaVaScRiPt:alert(1)")[0] == "dangerous-scheme"
    assert url_problem("data:image/svg+xml,x")[0] == "dangerous-scheme"
    assert url_problem("data:text/html,x")[0] == "dangerous-scheme"
    assert url_problem("http://a.b/ c")[0] == "not-url-safe"
    assert url_problem("http://é")[0] == "not-url-safe"
    assert url_problem("file:///x")[0] == "dangerous-scheme"
