"""C15 — tokens survive serialisation and tree conversion; rendering is repeatable."""
from __future__ import annotations

import copy

from vf import conf as C
from vf import gen
from vf import workload as W
from vf.selftests import selftest
from vf.util import first_diff, minimize_text, stream, walk

LEVEL = "exploration"
RULE = (
    "cases = (configuration, source) -> parser-produced stream, biased to nested images, empty inline containers, int attrs (ordered "
    "list start), meta (store_labels, definitions), hidden tokens. Oracles on the real objects: Token.from_dict(t.as_dict(children=c, "
    "as_upstream=u)) == t for c,u in {T,F}^2 and the round-tripped stream renders to the same HTML; SyntaxTreeNode(ts).to_tokens() "
    "returns the identical objects in order; walk() visits nodes in stream order (nesters at their opening token, children of "
    "inline/image after their container); parent/children/siblings/next/previous are mutually consistent; rendering the same "
    "list twice gives the same HTML and leaves every token equal to a deep copy taken before; a deep copy renders the same. "
    "Non-trivial = stream with >=1 token having children or attrs or meta; distinct by (conf id, source)."
    " After a restored token was given an attribute, all other and all later restorations still equal their originals; a stream decorated with data-line/class attributes renders identically three times. An equal stream renders to the same HTML on a renderer object made at that moment (no dependence on what the instance rendered before); image-description twins (same description source, different children) are rendered in sequence on one instance."
)
ASSUMPTIONS = ["token equality = dataclass equality of markdown_it.token.Token", "'with or without children' is read as the children parameter of as_dict"]


def floors(tier):
    q = tier == "quick"
    return {"streams": 60000 if q else 1500000, "roundtrip.children_nonempty": 50000, "roundtrip.children_empty": 1000, "roundtrip.attrs_int": 2000,
            "roundtrip.meta_nonempty": 2000, "roundtrip.hidden": 5000, "roundtrip.image_with_children": 3000, "tree.nodes": 500000, "rendered_twice": 60000,
            "roundtrip.children_false_with_children": 30000, "roundtrip.restored_then_mutated": 20000, "rendered_decorated": 60000, "tree.inner_walks": 50000, "tree.without_root": 50000, "rendered_on_fresh_renderer": 50000, "twins.rendered": 150}


def check_stream(ctx, md, toks, env, count=True):
    from markdown_it.token import Token
    from markdown_it.tree import SyntaxTreeNode
    errs = []

    def cnt(k, n=1):
        if count:
            ctx.count(k, n)
    before = copy.deepcopy(toks)
    html1 = md.renderer.render(toks, md.options, env)
    # --- what a stream renders to is a function of the tokens, the options and env - not of what this renderer rendered before: a
    # renderer object made now (only when every render rule is the renderer's own method, i.e. no plug-in rule bound elsewhere) must
    # give the same HTML for an equal stream
    fresh = None
    try:
        cand = type(md.renderer)()
        if set(cand.rules) == set(md.renderer.rules) and all(getattr(v, "__self__", None) is md.renderer and getattr(v, "__func__", None) is getattr(cand.rules[k], "__func__", 0)
                                                              for k, v in md.renderer.rules.items()):
            fresh = cand
    except Exception:
        fresh = None
    if fresh is not None:
        try:
            hf = fresh.render(copy.deepcopy(before), md.options, copy.deepcopy(env))
        except Exception as e:
            errs.append(("fresh-renderer-raises", f"{type(e).__name__}: {e}"))
        else:
            cnt("rendered_on_fresh_renderer")
            if hf != html1:
                errs.append(("render-depends-on-renderer-history", f"the instance's renderer gives {first_str_diff(html1, hf)} (second: a renderer object made now, same tokens, options, env)"))
    # --- serialisation round trips --------------------------------------------------------------------
    for ch in (True, False):
        for up in (True, False):
            rt = []
            for t in toks:
                try:
                    d = t.as_dict(children=ch, as_upstream=up)
                    t2 = Token.from_dict(d)
                except Exception as e:
                    errs.append((f"roundtrip-raises:children={ch},as_upstream={up}", f"{t.type}: {type(e).__name__}: {e}"))
                    rt = None
                    break
                if t2 != t:
                    errs.append((f"roundtrip-unequal:children={ch},as_upstream={up}", f"{t.type}: {first_diff(stream([t]), stream([t2]))}"))
                    rt = None
                    break
                rt.append(t2)
            if rt is None:
                continue
            try:
                h = md.renderer.render(rt, md.options, copy.deepcopy(env))
            except Exception as e:
                errs.append((f"roundtrip-render-raises:children={ch},as_upstream={up}", f"{type(e).__name__}: {e}"))
                continue
            if h != html1:
                errs.append((f"roundtrip-render-differs:children={ch},as_upstream={up}", f"{h[:200]!r} vs {html1[:200]!r}"))

    # a history of earlier restorations does not matter: after a restored token was given an attribute (plug-ins add ids, classes,
    # source positions to restored streams), every other restored token still equals its original, and so do tokens restored later
    # (done on a private copy of the stream: with as_upstream=False a restored token shares its attrs dict with its original)
    if not count or ctx.counters["streams"] % 2 == 0:
        ch, up = [(True, True), (False, True), (True, False), (False, False)][(ctx.counters["streams"] // 2) % 4 if count else 0]
        mine = copy.deepcopy(before)
        try:
            rt = [Token.from_dict(t.as_dict(children=ch, as_upstream=up)) for t in mine]
        except Exception:
            rt = []
        j = next((i for i, t2 in enumerate(rt) if not t2.attrs and t2.nesting >= 0), None)
        if j is not None and len(rt) > 1:
            rt[j].attrSet("id", "vf-anchor")
            rt[j].meta["vf"] = 1
            cnt("roundtrip.restored_then_mutated")
            bad = next((i for i, (t, t2) in enumerate(zip(mine, rt)) if i != j and t2 != t), None)
            what, shown = "another restored token", rt
            if bad is None:
                shown = [Token.from_dict(t.as_dict(children=ch, as_upstream=up)) for t in mine]
                bad = next((i for i, (t, t2) in enumerate(zip(mine, shown)) if t2 != t), None)
                what = "a token restored afterwards"
            if bad is not None:
                errs.append((f"roundtrip-unequal-after-earlier-restoration:children={ch},as_upstream={up}",
                             f"after attrSet/meta on restored token {j} ({rt[j].type}), {what} ({bad}: {mine[bad].type}) no longer equals its original: {first_diff(stream([mine[bad]]), stream([shown[bad]]))}"))
    for t in walk(toks):
        if t.children:
            cnt("roundtrip.children_nonempty")
            cnt("roundtrip.children_false_with_children")
            if t.type == "image":
                cnt("roundtrip.image_with_children")
        elif t.children is not None:
            cnt("roundtrip.children_empty")
        if any(isinstance(v, int) for v in t.attrs.values()):
            cnt("roundtrip.attrs_int")
        if t.meta:
            cnt("roundtrip.meta_nonempty")
        if t.hidden:
            cnt("roundtrip.hidden")
    # --- tree -----------------------------------------------------------------------------------------------
    try:
        root = SyntaxTreeNode(toks)
    except Exception as e:
        errs.append(("tree-construction", f"{type(e).__name__}: {e}"))
        root = None
    if root is not None:
        flat = root.to_tokens()
        if len(flat) != len(toks) or any(a is not b for a, b in zip(flat, toks)):
            errs.append(("tree-to_tokens", f"to_tokens() returned {[t.type for t in flat][:12]} for {[t.type for t in toks][:12]}"))
        want = []

        def order(ts):
            for t in ts:
                if t.nesting >= 0:
                    want.append(t)
                    if t.children:
                        order(t.children)
        order(toks)
        got = []
        n = 0
        for node in root.walk(include_self=False):
            n += 1
            got.append(node.token if node.token is not None else node.nester_tokens.opening)
            kids = node.children
            for i, k in enumerate(kids):
                if k.parent is not node:
                    errs.append(("tree-links", f"child {k.type} of {node.type} has parent {k.parent!r}"))
                    break
                sib = k.siblings
                if sib is not kids and list(sib) != list(kids):
                    errs.append(("tree-links", f"siblings of {k.type} are not its parent's children"))
                    break
                nx, pv = k.next_sibling, k.previous_sibling
                if nx is not (kids[i + 1] if i + 1 < len(kids) else None) or pv is not (kids[i - 1] if i else None):
                    errs.append(("tree-links", f"next/previous sibling of child {i} of {node.type} inconsistent"))
                    break
        cnt("tree.nodes", n)
        if len(got) != len(want) or any(a is not b for a, b in zip(got, want)):
            errs.append(("tree-walk-order", f"walk() order {[t.type for t in got][:14]} != stream order {[t.type for t in want][:14]}"))
        for k in root.children:
            if k.parent is not root:
                errs.append(("tree-links", "top-level node's parent is not the root"))
                break
    # --- a walk started at an inner node covers exactly that node's subtree; a tree built without the artificial root flattens back ---
    if root is not None:
        def subtree(nd):
            out = [nd]
            for c in nd.children:
                out += subtree(c)
            return out
        allnodes = list(root.walk(include_self=False))
        for nd in allnodes[:: max(1, len(allnodes) // 12)][:14]:
            got = list(nd.walk(include_self=True))
            want_nodes = subtree(nd)
            if len(got) != len(want_nodes) or any(a is not b for a, b in zip(got, want_nodes)):
                errs.append(("tree-walk-from-inner-node", f"walk() started at a {nd.type} node yields {[g.type for g in got][:10]} ({len(got)} nodes), its subtree is {[w.type for w in want_nodes][:10]} ({len(want_nodes)} nodes)"))
                break
            if list(nd.walk(include_self=False)) != want_nodes[1:]:
                errs.append(("tree-walk-from-inner-node", f"walk(include_self=False) started at a {nd.type} node does not yield its descendants"))
                break
        cnt("tree.inner_walks")
        # first top-level group (one unnested token, or an _open ... _close run) as a tree of its own
        if toks:
            end = 0
            depth = 0
            for i, t in enumerate(toks):
                depth += t.nesting
                if depth == 0:
                    end = i
                    break
            group = toks[: end + 1]
            try:
                sub_root = SyntaxTreeNode(group, create_root=False)
                flat2 = sub_root.to_tokens()
                cnt("tree.without_root")
                if len(flat2) != len(group) or any(a is not b for a, b in zip(flat2, group)):
                    errs.append(("tree-to_tokens:create_root=False", f"to_tokens() of a tree built without root returned {[t.type for t in flat2][:8]} for {[t.type for t in group][:8]}"))
                elif sub_root.is_root or sub_root.type == "root":
                    errs.append(("tree-to_tokens:create_root=False", f"top node of a tree built without root claims to be the root (type {sub_root.type!r})"))
            except Exception as e:
                errs.append(("tree-construction:create_root=False", f"{type(e).__name__}: {e}"))
    # --- nodes handed out by the tree stay linked after the caller dropped the root ---------------------------------
    if root is not None and (not count or ctx.counters["streams"] % 8 == 0):
        import gc
        nodes = list(root.walk(include_self=False))
        top = list(root.children)
        n_top = len(top)
        del root
        gc.collect()
        for nd in nodes[:200]:
            par = nd.parent
            if par is None:
                errs.append(("tree-links-after-root-dropped", f"node {nd.type} lost its parent once the root object was released"))
                break
            if not any(c is nd for c in par.children):
                errs.append(("tree-links-after-root-dropped", f"node {nd.type} is not among its parent's children"))
                break
        cnt("tree.nodes_checked_without_root", min(200, len(nodes)))
    # --- repeatable rendering -----------------------------------------------------------------------------------
    html2 = md.renderer.render(toks, md.options, env)
    cnt("rendered_twice")
    if html2 != html1:
        errs.append(("render-not-repeatable", f"second render differs: {html2[:200]!r} vs {html1[:200]!r}"))
    html3 = md.renderer.render(copy.deepcopy(toks), md.options, env)
    if html3 != html1:
        errs.append(("render-after-copy-differs", f"{html3[:200]!r} vs {html1[:200]!r}"))
    html4 = md.renderer.render(before, md.options, env)
    if html4 != html1:
        errs.append(("render-changed-tokens", f"a pristine copy renders {html4[:200]!r}, the rendered stream {html1[:200]!r}"))
    # --- a decorated stream (what a plug-in that adds source positions / classes produces) renders repeatably too ------------------
    deco = copy.deepcopy(before)
    for t in deco:
        if t.map and t.nesting >= 0:
            t.attrSet("data-line", str(t.map[0]))
            if t.type in ("fence", "code_block", "paragraph_open"):
                t.attrJoin("class", "vf")
    try:
        outs = [md.renderer.render(deco, md.options, env) for _ in range(3)]
    except Exception as e:
        errs.append(("decorated-render-raises", f"{type(e).__name__}: {e}"))
        outs = []
    cnt("rendered_decorated")
    if outs and (outs[0] != outs[1] or outs[1] != outs[2]):
        k = 1 if outs[0] != outs[1] else 2
        errs.append(("render-not-repeatable:decorated", f"render {k + 1} of a stream whose block tokens carry data-line/class attributes differs from render {k}: {first_str_diff(outs[k], outs[k - 1])}"))
    # rendering may set derived attributes (image alt); nothing that affects a later render - checked above; also the tokens
    # must still round-trip
    return errs


def first_str_diff(a, b):
    i = next((k for k in range(min(len(a), len(b))) if a[k] != b[k]), min(len(a), len(b)))
    return f"{a[max(0, i - 60):i + 60]!r} vs {b[max(0, i - 60):i + 60]!r}"


def examine(ctx, conf, src, count=False):
    md = W.get_md(conf)
    env = {}
    try:
        toks = md.parse(src, env)
    except Exception:
        return None, None
    return check_stream(ctx, md, toks, env, count), toks


def check_case(ctx, case, minimize=True):
    ctx.count("evaluations")
    ctx.current = case
    conf, src = case["conf"], case["src"]
    errs, toks = examine(ctx, conf, src, True)
    if toks is None:
        ctx.count("skipped.exception")
        return
    ctx.count("streams")
    if not errs:
        if any(t.children or t.attrs or t.meta for t in walk(toks)):
            ctx.nontrivial(C.conf_id(conf), src)
        return
    for key in sorted({k for k, _ in errs}):
        msg = next(m for k, m in errs if k == key)
        c = case
        if minimize and not ctx.replaying:
            def fails(s, key=key):
                e, _ = examine(ctx, conf, s)
                return bool(e) and any(k == key for k, _ in e)
            c = dict(case, src=minimize_text(src, fails, 3.0))
        ctx.violation(key, f"{msg} | conf={conf} src={c['src']!r}", c)


def replay(ctx, case):
    check_case(ctx, case, minimize=False)


SPECIAL = ["#\n", "# \n", "|a||\n|-|-|\n| | |\n", "![](u)\n", "![a ![b ![c](d)](e) f](g \"t\")\n", "7. x\n8. y\n", "123456789) z\n", "- a\n- b\n\n- c\n",
           "[t][r] ![i][r] [r]\n\n[r]: /u 'ti'\n[r]: /dup\n", "```py x=1\nc\n```\n", "~~~\n~~~\n", "<div>\n</div>\n\n<b>i</b>\n", "*a **b** c*\n", "a  \nb\\\nc\n",
           "[](u)\n", "![*e* `c`](s)\n", ">\n", "-\n", "1.\n", "\n", "", "www.ex.com a@b.co http://x.y\n"]


def run(ctx):
    rng = ctx.rng
    confs = W.PANEL + [{"preset": "commonmark", "options": {"store_labels": True, "inline_definitions": True}},
                       {"preset": "js-default", "options": {"store_labels": True}}, {"preset": "gfm-like", "stub_linkify": True, "options": {"typographer": True}},
                       # post-processing rules off: token levels are then not recomputed, the tree must still follow the nesting
                       {"preset": "commonmark", "disable": ["fragments_join"]}, {"preset": "js-default", "disable": ["fragments_join", "balance_pairs"]},
                       {"preset": "commonmark", "enable": ["strikethrough"], "disable": ["fragments_join"]}]
    k = 0
    for src in SPECIAL:
        for conf in confs:
            k += 1
            if ctx.mine(k):
                check_case(ctx, {"conf": conf, "src": src})

    # twins: the same image description source whose parsed children differ from one document to the next (a label defined or not,
    # an entity, a nested image), rendered one after the other on the same instance, in both orders
    descs = ["a [b] c", "[b]", "x [b][] y", "![in [b]](u) t", "a [B] *e*", "`k` [b]", "[b] &amp; [c]"]
    for conf in confs[:6]:
        for di, dsc in enumerate(descs):
            k += 1
            if not ctx.mine(k):
                continue
            a = f"![{dsc}](/i.png)\n\n[b]: /u\n"
            b = f"![{dsc}](/i.png)\n\n[c]: /v\n"
            c = f"para\n\n![{dsc}](/i.png \"t\")\n"
            for src in ([a, b, c, a] if di % 2 == 0 else [c, b, a, b]):
                ctx.count("twins.rendered")
                check_case(ctx, {"conf": conf, "src": src}, minimize=False)

    from vf import limits
    for i, (name, src) in enumerate(limits.docs(big=True)):
        if ctx.quick and name in ("table_sparse_255", "table_sparse_257", "table_sparse_300"):
            continue   # ~65 000 cells = 200 000 tokens, four round trips each: 20+ CPU-seconds per document; quick keeps _256 and the six-table one
        if ctx.mine(i) and len(src) < 30000:   # (the two 130 kB tables are covered by C02/C03/C04; four round trips of 200 000 tokens are too slow here)
            ctx.count("wl.limits")
            check_case(ctx, {"conf": {"preset": "js-default"}, "src": src}, minimize=False)

    def doc_gen(r):
        x = r.random()
        if x < 0.2:
            return "special_mix", "\n".join(r.choice(SPECIAL) for _ in range(r.randint(1, 4)))
        if x < 0.55:
            return "gram", gen.gram(r)
        if x < 0.75:
            return "soup", gen.soup(r)
        return "corpus", gen.corpus_mutation(r)
    n = ctx.scale(70000, 2000000)
    for kind, conf, src in W.documents(ctx, n, conf_sampler=lambda r: r.choice(confs) if r.random() < 0.6 else C.sample(r), doc_gen=doc_gen, lines=False):
        check_case(ctx, {"conf": conf, "src": src})
        ctx.sample({"conf": conf, "src": src[:160]}, every=1499)


@selftest
def _selftest():
    from markdown_it import MarkdownIt
    from vf.worker import Ctx
    ctx = Ctx("C15", "quick", 0, 0, 1)
    md = MarkdownIt()
    env = {}
    toks = md.parse("3. ![a *b*](c)\n", env)
    assert check_stream(ctx, md, toks, env, False) == []
    # a renderer that mutates tokens in a way that matters must be seen
    def bad_fence(self, tokens, idx, options, env):
        tokens[idx].info += "x"
        return "<pre>" + tokens[idx].info + "</pre>"
    md.add_render_rule("fence", bad_fence)
    toks = md.parse("```a\n```\n", env)
    keys = {k for k, _ in check_stream(ctx, md, toks, env, False)}
    assert "render-not-repeatable" in keys, keys
