"""C11 — rule management is coherent over any history, including failed calls."""
from __future__ import annotations

import copy
import sys

from vf.selftests import selftest

LEVEL = "exploration"
RULE = (
    "cases = histories. (1) Ruler level: 5-40 operations (push, before, after, at, enable, enableOnly, disable with ignoreInvalid "
    "on/off and str/list arguments, getRules on any chain interleaved) over names {a,b,c,d,a(duplicate),zz(unknown)} and alts within "
    "{p,q}; a real Ruler is driven in lock-step with a sequential model and compared after EVERY call including raising ones: "
    "reported (get_all_rules/get_active_rules) must be a state the model allows (for a raising call: unchanged or the documented "
    "prefix effect; for duplicate names: first-match or all-match) and applied (getRules for '', p, q, unused chain) must equal the "
    "functions of the reported active rules in registration order filtered by my own record of each rule's alt. (2) Facade level: "
    "MarkdownIt.enable/disable/configure/reset_rules/ruler.at/before/after/push histories incl. unknown names; after every step the "
    "reported rules must equal a sequential model of the calls' set semantics (a name is switched in every chain registering it); then a non-invasive "
    "observation: a probe document on which every enabled rule of every chain must be attempted is parsed under sys.monitoring "
    "PY_START and the first-call order of rule code objects per chain must equal get_active_rules(). Non-trivial = history with "
    ">=1 mutator after a cache-warming getRules/parse; distinct by the operation sequence. (4) Duplicate built-in names: each built-in "
    "block/inline/post-processing rule with a signature probe is registered a second time (before/after the first, built-in function), "
    "toggled by name through ruler and facade (9 scripts x 3 presets); the rendering of the signature probe, of a combined document and of a document where each block construct interrupts a paragraph, quote, item, table or definition (terminator chains) must "
    "equal that of a duplicate-free instance set to exactly the reported active rules."
)
ASSUMPTIONS = [
    "model is permissive where the statement is silent: a raising call may be atomic or have the documented prefix effect; duplicate names may be first-match or all-match",
    "facade observation relies on the probe 'a\\n^\\n' making every enabled rule of every chain run at least once (verified per preset by the run itself: floors on observed rules)",
]
NSHARDS = {"quick": 16, "thorough": 32}
CHAINS = ["", "p", "q", "zz"]


def floors(tier):
    q = tier == "quick"
    return {"ruler.ops": 2000000 if q else 50000000, "ruler.raising_mutator_warm": 10000, "ruler.warm_mutations": 50000, "ruler.chains_compared": 1000000,
            "op.enable.raise": 1000, "op.disable.raise": 1000, "op.enableOnly.raise": 1000, "op.at.raise": 500, "op.before.raise": 500, "op.after.raise": 500,
            "ruler.duplicate_name_ops": 5000, "facade.histories": 30000 if q else 600000, "facade.rules_observed": 50000, "facade.raising_ops": 500,
            "facade.reset_rules_exits": 500, "facade.plugin_rules": 500, "facade.model_checks": 100000, "facade.validation_mode_probes": 3000, "terminator.cases": 700, "facade.component_swaps": 500,
            "duplicate.cases": 900, "duplicate.discriminating_probes": 600, "duplicate.reported_inactive": 20}


# ---- (1) sequential model -------------------------------------------------------------------------------------
class Model:
    """state: list of [name, enabled, fn, alt]"""

    def __init__(self):
        self.rules = []

    def find(self, name):
        for i, r in enumerate(self.rules):
            if r[0] == name:
                return i
        return -1

    def find_all(self, name):
        return [i for i, r in enumerate(self.rules) if r[0] == name]


def candidates_toggle(rules, op, names, ign):
    """acceptable (state, raises) outcomes of enable/disable/enableOnly; each state is a deep-copied rule list"""
    ns = [names] if isinstance(names, str) else list(names)
    outs = []
    for match_all in (False, True):
        st = copy.deepcopy_rules(rules)
        if op == "enableOnly":
            for r in st:
                r[1] = False
        raised = False
        for n in ns:
            idxs = [i for i, r in enumerate(st) if r[0] == n]
            if not idxs:
                if ign:
                    continue
                raised = True
                break
            for i in (idxs if match_all else idxs[:1]):
                st[i][1] = op != "disable"
        outs.append((st, raised))
        if raised:
            outs.append((copy.deepcopy_rules(rules), True))  # atomic failure
    return outs


def _deepcopy_rules(rules):
    return [[r[0], r[1], r[2], list(r[3])] for r in rules]


copy.deepcopy_rules = _deepcopy_rules


def reported(ruler):
    return ruler.get_all_rules(), ruler.get_active_rules()


def state_reported(st):
    return [r[0] for r in st], [r[0] for r in st if r[1]]


def run_ruler_history(ctx, ops, record=True):
    """ops: list of JSON-able operation records. Returns (key, msg) or None."""
    from markdown_it.ruler import Ruler
    ruler = Ruler()
    rules = []
    fns = {}
    warm = False

    def fn_for(i):
        if i not in fns:
            fns[i] = (lambda *a, _i=i: _i)
            fns[i].__name__ = f"fn{i}"
        return fns[i]

    for step, op in enumerate(ops):
        kind = op["op"]
        raised = None
        if record:
            ctx.count("ruler.ops")
            if any(r[0] == op.get("name") for r in rules) and sum(1 for r in rules if r[0] == op.get("name")) > 1:
                ctx.count("ruler.duplicate_name_ops")
        try:
            if kind == "getRules":
                ruler.getRules(op["chain"])
                warm = True
                cands = [(rules, False)]
            elif kind == "push":
                ruler.push(op["name"], fn_for(op["fn"]), {"alt": list(op["alt"])} if op["alt"] is not None else None)
            elif kind in ("before", "after"):
                getattr(ruler, kind)(op["ref"], op["name"], fn_for(op["fn"]), {"alt": list(op["alt"])} if op["alt"] is not None else None)
            elif kind == "at":
                ruler.at(op["name"], fn_for(op["fn"]), {"alt": list(op["alt"])} if op["alt"] is not None else None)
            else:
                getattr(ruler, kind)(op["names"], op["ign"])
        except KeyError as e:
            raised = e
        except Exception as e:  # any other exception type is not documented
            return "ruler-unexpected-exception", f"step {step} {op}: {type(e).__name__}: {e}"
        # model outcomes
        alt = list(op.get("alt") or [])
        if kind == "getRules":
            cands = [(rules, False)]
        elif kind == "push":
            cands = [(rules + [[op["name"], True, fn_for(op["fn"]), alt]], False)]
        elif kind in ("before", "after"):
            idxs = [i for i, r in enumerate(rules) if r[0] == op["ref"]]
            if not idxs:
                cands = [(rules, True)]
            else:
                i = idxs[0] + (1 if kind == "after" else 0)
                cands = [(rules[:i] + [[op["name"], True, fn_for(op["fn"]), alt]] + rules[i:], False)]
        elif kind == "at":
            idxs = [i for i, r in enumerate(rules) if r[0] == op["name"]]
            if not idxs:
                cands = [(rules, True)]
            else:
                st = _deepcopy_rules(rules)
                st[idxs[0]][2] = fn_for(op["fn"])
                st[idxs[0]][3] = alt
                cands = [(st, False)]
        else:
            cands = candidates_toggle(rules, kind, op["names"], op["ign"])
        if record and kind != "getRules":
            ctx.count(f"op.{kind}.{'raise' if raised else 'ok'}")
            if warm:
                ctx.count("ruler.warm_mutations")
                if raised:
                    ctx.count("ruler.raising_mutator_warm")
        rep = reported(ruler)
        chosen = None
        for st, r in cands:
            if bool(r) == bool(raised) and state_reported(st) == rep:
                chosen = st
                break
        if chosen is None:
            if not any(bool(r) == bool(raised) for _, r in cands):
                return "ruler-raise-mismatch", f"step {step} {op}: implementation {'raised ' + repr(raised) if raised else 'returned'}, model expects {'raise' if cands[0][1] else 'return'}"
            return "ruler-reported-departs-from-model", f"step {step} {op}: reported {rep}, model allows {[state_reported(st) for st, _ in cands]}"
        rules = chosen
        # applied == reported (filtered by my own record of alt), for every chain
        for chain in CHAINS:
            got = ruler.getRules(chain)
            want = [r[2] for r in rules if r[1] and (chain == "" or chain in r[3])]
            if record:
                ctx.count("ruler.chains_compared")
            if got != want:
                return "ruler-applied-ne-reported", (f"step {step} after {op} ({'raised' if raised else 'ok'}): chain {chain!r} applies "
                                                     f"{[getattr(f, '__name__', f) for f in got]} but active rules are {[(r[0], r[2].__name__) for r in rules if r[1]]}")
        # the comparison itself called getRules (cache is warm now) - that is what a parse would do too
        warm = True
    return None


def gen_ruler_history(rng):
    names = ["a", "b", "c", "d", "a", "zz"]
    ops = []
    nfn = 0
    for _ in range(rng.randint(2, 4)):
        nfn += 1
        ops.append({"op": "push", "name": rng.choice(names[:5]), "fn": nfn, "alt": rng.choice([rng.sample(["p", "q"], rng.randint(0, 2)), ["p", "q", "p"], ["", "q"]])})
    for _ in range(rng.randint(3, 36)):
        kind = rng.choice(["push", "before", "after", "at", "enable", "enableOnly", "disable", "disable", "enable", "getRules"])
        name = rng.choice(names)
        if kind == "getRules":
            ops.append({"op": kind, "chain": rng.choice(CHAINS)})
        elif kind in ("push", "before", "after", "at"):
            nfn += 1
            # (one function object may serve several rule names - shared helpers, a no-op - so now and then an earlier one is reused)
            o = {"op": kind, "name": name if kind == "at" else rng.choice(names[:5]), "fn": nfn if rng.random() < 0.75 else rng.randint(1, nfn),
                 "alt": rng.choice([None, [], ["p"], ["q"], ["p", "q"], ["p", "p"], ["q", "p", "q"], [""], ["", "p"]])}
            if kind in ("before", "after"):
                o["ref"] = rng.choice(names)
            ops.append(o)
        else:
            other = rng.choice(names)
            if rng.random() < 0.04:
                # long requests (batch code paths): many unknown names, the known ones (and duplicates) somewhere inside
                arg = ["u%d" % i for i in range(rng.choice([63, 64, 65, 70, 130]))]
                for nm2 in (name, other, name):
                    arg.insert(rng.randint(0, len(arg)), nm2)
                ops.append({"op": kind, "names": arg, "ign": True})
                continue
            arg = rng.choice([name, [name], [name, other], [other, name, rng.choice("abcd")], [], ["zz", name], [name, "zz", other]])
            ops.append({"op": kind, "names": arg, "ign": rng.random() < 0.5})
    return ops


# ---- (2) facade histories + non-invasive observation ----------------------------------------------------------------
_names = None


def rule_names():
    global _names
    if _names is None:
        from markdown_it import parser_block, parser_core, parser_inline
        _names = {}
        for chain, rules in (("block", parser_block._rules), ("inline", parser_inline._rules), ("core", parser_core._rules),
                             ("inline2", parser_inline._rules2)):
            for r in rules:
                _names[(chain, r[1].__code__)] = r[0]
    return _names


def observe(md, extra, probe="a\n^\n"):
    """first-call order of rule functions per chain while parsing the probe (no Ruler method is called by the observer)"""
    mon = sys.monitoring
    tid = mon.DEBUGGER_ID
    names = rule_names()
    bycode = {}
    for (chain, code), nm in names.items():
        bycode.setdefault(code, []).append((chain, nm))
    for code, (chain, nm) in extra.items():
        bycode.setdefault(code, []).append((chain, nm))
    seen = []

    def cb(code, off):
        hit = bycode.get(code)
        if hit:
            for h in hit:
                if h not in seen:
                    seen.append(h)
        else:
            return mon.DISABLE
    mon.use_tool_id(tid, "vf-c11")
    try:
        mon.register_callback(tid, mon.events.PY_START, cb)
        mon.set_events(tid, mon.events.PY_START)
        mon.restart_events()
        md.parse(probe)
    finally:
        mon.set_events(tid, 0)
        mon.register_callback(tid, mon.events.PY_START, None)
        mon.free_tool_id(tid)
    out = {"core": [], "block": [], "inline": [], "inline2": []}
    for chain, nm in seen:
        out[chain].append(nm)
    return out


def mk_plugin(i, chain):
    if chain == "core":
        def f(state):
            return None
    elif chain == "inline2":
        def f(state):
            return None
    elif chain == "block":
        def f(state, startLine, endLine, silent):
            return False
    else:
        def f(state, silent):
            return False
    f.__code__ = f.__code__.replace(co_name=f"plug_{chain}_{i}")
    return f


def preset_model(preset):
    """sequential model of the facade: {chain: [[name, enabled], ...]} as the documented configuration of `preset` gives it"""
    from markdown_it import parser_block, parser_core, parser_inline, presets
    reg = {"core": [r[0] for r in parser_core._rules], "block": [r[0] for r in parser_block._rules], "inline": [r[0] for r in parser_inline._rules],
           "inline2": [r[0] for r in parser_inline._rules2]}
    model = {ch: [[n, True] for n in names] for ch, names in reg.items()}
    apply_preset(model, preset)
    return model


def _fresh_model():
    from markdown_it import parser_block, parser_core, parser_inline
    reg = {"core": [r[0] for r in parser_core._rules], "block": [r[0] for r in parser_block._rules], "inline": [r[0] for r in parser_inline._rules],
           "inline2": [r[0] for r in parser_inline._rules2]}
    return {ch: [[n, True] for n in names] for ch, names in reg.items()}


def apply_preset(model, preset):
    from markdown_it import presets
    mod = {"commonmark": presets.commonmark, "js-default": presets.js_default, "default": presets.default, "zero": presets.zero, "gfm-like": presets.gfm_like}[preset]
    comps = mod.make().get("components", {})
    for ch, comp in comps.items():
        if comp.get("rules"):
            for r in model[ch]:
                r[1] = r[0] in comp["rules"]
        if comp.get("rules2"):
            for r in model["inline2"]:
                r[1] = r[0] in comp["rules2"]


def model_reported(model):
    return {ch: [r[0] for r in rs if r[1]] for ch, rs in model.items()}, {ch: [r[0] for r in rs] for ch, rs in model.items()}


def run_facade_history(ctx, hist, record=True):
    from markdown_it import MarkdownIt
    md = MarkdownIt(hist["preset"], {"linkify": False})  # no linkifier is installed; the linkify rules stay in their chains
    extra = {}
    depth = []
    model = preset_model(hist["preset"])
    msnaps = []

    def model_check(step, op):
        act, allr = model_reported(model)
        if md.get_active_rules() != act or md.get_all_rules() != allr:
            got = md.get_active_rules()
            diff = {ch: (sorted(set(got[ch]) - set(act[ch])), sorted(set(act[ch]) - set(got[ch]))) for ch in act if got[ch] != act[ch]}
            return "facade-reported-departs-from-model", f"step {step} after {op}: reported active rules differ from the set semantics of the calls (extra, missing per chain): {diff}"
        return None
    r0 = model_check(-1, "construction")
    if r0:
        return r0

    def ruler_of(chain):
        return md.inline.ruler2 if chain == "inline2" else md[chain].ruler
    warm = False
    for step, op in enumerate(hist["ops"]):
        kind = op["op"]
        try:
            if kind in ("enable", "disable"):
                names = [op["names"]] if isinstance(op["names"], str) else list(op["names"])
                for ch in model:
                    for r in model[ch]:
                        if r[0] in names:
                            r[1] = kind == "enable"
                getattr(md, kind)(op["names"], op["ign"])
            elif kind == "configure":
                apply_preset(model, op["preset"])
                md.configure(op["preset"], {"linkify": False})
            elif kind == "parse":
                md.parse("x *y*\n\n> z\n")
                warm = True
            elif kind == "swap":
                # the application installs a fresh parser component in the public attribute (e.g. to start from all rules again, or
                # a subclass): the facade must manage and report the rules of the component that parses
                from markdown_it.parser_block import ParserBlock
                from markdown_it.parser_core import ParserCore
                from markdown_it.parser_inline import ParserInline
                ch = op["chain"]
                setattr(md, ch, {"block": ParserBlock, "inline": ParserInline, "core": ParserCore}[ch]())
                fresh = preset_model.__globals__["_fresh_model"]()
                for c2 in ([ch, "inline2"] if ch == "inline" else [ch]):
                    model[c2] = fresh[c2]
                    for code, (cc, nm) in list(extra.items()):
                        if cc == c2:
                            del extra[code]
                    hist["_replaced"] = [x for x in hist.get("_replaced", []) if x[0] != c2]
                if record:
                    ctx.count("facade.component_swaps")
            elif kind == "reset_enter":
                cm = md.reset_rules()
                cm.__enter__()
                depth.append((cm, md.get_active_rules()))
                msnaps.append({ch: {r[0] for r in rs if r[1]} for ch, rs in model.items()})
            elif kind == "reset_exit" and depth:
                snap = msnaps.pop()
                for ch in model:
                    for r in model[ch]:
                        r[1] = r[0] in snap[ch]
                cm, want = depth.pop()
                exc = (ValueError, ValueError("boom"), None) if op.get("exc") else (None, None, None)
                cm.__exit__(*exc)
                if record:
                    ctx.count("facade.reset_rules_exits")
                # whether the rules are restored on every exit path is C14's business; here the block only diversifies histories
            elif kind == "plugin":
                f = mk_plugin(step, op["chain"])
                r = ruler_of(op["chain"])
                how = op["how"]
                mch = model[op["chain"]]
                pos = next((i for i, x in enumerate(mch) if x[0] == op.get("ref")), -1)
                if how == "push":
                    r.push(op["name"], f)
                    mch.append([op["name"], True])
                elif how == "at":
                    r.at(op["ref"], f)
                else:
                    getattr(r, how)(op["ref"], op["name"], f)
                    mch.insert(pos if how == "before" else pos + 1, [op["name"], True])
                if how == "at":
                    # replaced: the old function must no longer be applied, the new one carries the old name
                    for code, (ch, nm) in list(extra.items()):
                        if ch == op["chain"] and nm == op["ref"]:
                            del extra[code]
                    names = rule_names()
                    for (ch, code), nm in list(names.items()):
                        pass
                    extra[f.__code__] = (op["chain"], op["ref"])
                    hist.setdefault("_replaced", []).append((op["chain"], op["ref"]))
                else:
                    extra[f.__code__] = (op["chain"], op["name"])
                if record:
                    ctx.count("facade.plugin_rules")
            elif kind == "ruler":
                mch = model[op["chain"]]
                for nme in op["names"]:
                    hit = [x for x in mch if x[0] == nme]
                    if not hit:
                        if op["ign"]:
                            continue
                        break   # documented prefix effect: names before the unknown one are applied, then KeyError
                    hit[0][1] = op["method"] == "enable"
                getattr(ruler_of(op["chain"]), op["method"])(op["names"], op["ign"])
        except (ValueError, KeyError):
            if record:
                ctx.count("facade.raising_ops")
                if warm:
                    ctx.count("facade.raising_after_warm")
        except Exception as e:
            return "facade-unexpected-exception", f"step {step} {op}: {type(e).__name__}: {e}"
        rm = model_check(step, op)
        if rm:
            return rm
        if record:
            ctx.count("facade.model_checks")
    while depth:
        cm, want = depth.pop()
        cm.__exit__(None, None, None)
    act = md.get_active_rules()
    if "paragraph" not in act["block"] or "text" not in act["inline"] or not {"normalize", "block", "inline"} <= set(act["core"]):
        if record:
            ctx.count("facade.unsupported_skipped")
        return None
    if "linkify" in act["core"] or "linkify" in act["inline"]:
        md.options["linkify"] = False  # rules stay in the chain and are entered; they return at once
    replaced = set(map(tuple, hist.get("_replaced", [])))
    try:
        obs = observe(md, extra)
    except Exception as e:
        return "facade-probe-exception", f"{type(e).__name__}: {e}"
    # validation mode (skipToken, used while scanning link labels) must walk the same chain as normal mode: a rule registered in
    # front of the inline chain that recognises "q]" as one unit keeps the label of [q] b](u) open
    if "link" in act["inline"] and "text" in act["inline"] and not hist.get("_replaced"):
        first = md.inline.ruler.get_all_rules()[0]

        def qrule(state, silent):
            if state.src.startswith("q]", state.pos):
                if not silent:
                    t = state.push("text", "", 0)
                    t.content = "q]"
                state.pos += 2
                return True
            return False
        md.inline.ruler.before(first, "vf_qrule", qrule)
        try:
            toks = md.parseInline("[q] b](u)")
            kids = toks[0].children or []
            txt = "".join(c.content for c in kids if c.type == "text")
            if not (kids and kids[0].type == "link_open" and kids[-1].type == "link_close" and txt == "q] b"):
                return "facade-applied-ne-reported:validation-mode", ("the first active inline rule is not consulted while a link label is scanned in validation mode: "
                                                                     f"[q] b](u) gave {[(c.type, c.content) for c in kids]}")
            if record:
                ctx.count("facade.validation_mode_probes")
        except Exception as e:
            return "facade-probe-exception", f"{type(e).__name__}: {e}"
        md.inline.ruler.disable("vf_qrule")
        act = md.get_active_rules()
    for chain in ("core", "block", "inline", "inline2"):
        # a built-in rule that was replaced through at() is observed under the plug-in's code object only
        got = obs[chain]
        if record:
            ctx.count("facade.rules_observed", len(got))
        if got != act[chain]:
            return "facade-applied-ne-reported", f"chain {chain}: rules entered while parsing {got} != get_active_rules() {act[chain]}"
    return None


def gen_facade_history(rng):
    from vf.mon.c10 import OPTIONAL
    allnames = OPTIONAL + ["replacements", "smartquotes", "linkify", "nope", "text_join", "balance_pairs", "fragments_join"]
    hist = {"preset": rng.choice(["commonmark", "js-default", "zero", "gfm-like", "default"]), "ops": []}
    nplug = 0
    open_resets = 0
    for _ in range(rng.randint(2, 14)):
        r = rng.random()
        if r < 0.45:
            k = rng.choice([1, 1, 2, 3])
            names = rng.sample(allnames, k)
            arg = names[0] if k == 1 and rng.random() < 0.5 else names
            hist["ops"].append({"op": rng.choice(["enable", "disable"]), "names": arg, "ign": rng.random() < 0.4})
        elif r < 0.58:
            hist["ops"].append({"op": "parse"})
        elif r < 0.6 and not open_resets:
            # (not inside a reset_rules block: its exit would re-enable rules by name that the fresh component does not have)
            hist["ops"].append({"op": "swap", "chain": rng.choice(["block", "inline", "core"])})
        elif r < 0.68:
            hist["ops"].append({"op": "configure", "preset": rng.choice(["commonmark", "js-default", "zero", "gfm-like"])})
        elif r < 0.78:
            hist["ops"].append({"op": "reset_enter"})
            open_resets += 1
        elif r < 0.86 and open_resets:
            hist["ops"].append({"op": "reset_exit", "exc": rng.random() < 0.5})
            open_resets -= 1
        elif r < 0.94:
            nplug += 1
            chain = rng.choice(["core", "block", "inline", "inline2"])
            refs = {"core": ["normalize", "block", "inline", "text_join", "nope"], "block": ["paragraph", "fence", "table", "list", "nope"],
                    "inline": ["text", "emphasis", "link", "newline", "nope"], "inline2": ["balance_pairs", "emphasis", "fragments_join", "nope"]}[chain]
            how = rng.choice(["push", "before", "after", "at"])
            ref = rng.choice(refs)
            if how == "at" and ref in ("paragraph", "text", "normalize", "block", "inline", "balance_pairs", "fragments_join", "text_join"):
                how = "before"
            if how == "push" and chain in ("block",):
                how = "before"  # keep the paragraph fallback last
            if how == "after" and ref == "paragraph":
                how = "before"
            hist["ops"].append({"op": "plugin", "chain": chain, "how": how, "ref": ref, "name": f"plug{nplug}"})
        else:
            chain = rng.choice(["core", "block", "inline", "inline2"])
            names = rng.sample(allnames, rng.choice([1, 2]))
            hist["ops"].append({"op": "ruler", "chain": chain, "method": rng.choice(["enable", "disable"]), "names": names, "ign": rng.random() < 0.5})
    return hist


def check_case(ctx, case):
    ctx.count("evaluations")
    ctx.current = case
    if case["kind"] == "ruler":
        r = run_ruler_history(ctx, case["ops"])
        if r is None:
            return
        # shrink: shortest failing prefix, then drop single operations
        ops = case["ops"]
        if not ctx.replaying:
            for n in range(1, len(ops) + 1):
                rr = run_ruler_history(ctx, ops[:n], record=False)
                if rr and rr[0] == r[0]:
                    ops = ops[:n]
                    break
            i = 0
            while i < len(ops) - 1:
                cand = ops[:i] + ops[i + 1:]
                rr = run_ruler_history(ctx, cand, record=False)
                if rr and rr[0] == r[0]:
                    ops = cand
                else:
                    i += 1
            r = run_ruler_history(ctx, ops, record=False) or r
        ctx.violation(r[0], f"{r[1]} | history={ops}", {"kind": "ruler", "ops": ops})
    else:
        hist = copy.deepcopy(case["hist"])
        r = run_facade_history(ctx, hist)
        if r is None:
            return
        ops = case["hist"]["ops"]
        if not ctx.replaying:
            i = 0
            while i < len(ops):
                cand = ops[:i] + ops[i + 1:]
                rr = run_facade_history(ctx, {"preset": case["hist"]["preset"], "ops": copy.deepcopy(cand)}, record=False)
                if rr and rr[0] == r[0]:
                    ops = cand
                else:
                    i += 1
            r = run_facade_history(ctx, {"preset": case["hist"]["preset"], "ops": copy.deepcopy(ops)}, record=False) or r
        ctx.violation(r[0], f"{r[1]} | preset={case['hist']['preset']} history={ops}", {"kind": "facade", "hist": {"preset": case["hist"]["preset"], "ops": ops}})


# ---- (3) named terminator chains are applied as registered: a plug-in block rule whose alt list names some of the chains -------------
TERM_DOCS = {"P": "x\n%%y\n", "R": "[a]:\n%%u\n", "Q": "> q\n%%z\n", "L": "- i\n%%w\n", "H": "t\n%%v\n===\n"}


def _term_md(alts, preset="commonmark"):
    from markdown_it import MarkdownIt
    md = MarkdownIt(preset)

    def pct(state, startLine, endLine, silent):
        pos = state.bMarks[startLine] + state.tShift[startLine]
        if not state.src.startswith("%%", pos):
            return False
        if silent:
            return True
        t = state.push("pct", "", 0)
        t.map = [startLine, startLine + 1]
        t.content = state.src[pos:state.eMarks[startLine]]
        state.line = startLine + 1
        return True
    md.block.ruler.before("paragraph", "pct", pct, {"alt": list(alts)})
    return md


def _term_outcome(md, src):
    env = {}
    toks = md.parse(src, env)
    return [(t.type, t.content) for t in toks if t.type in ("inline", "pct")], sorted(env.get("references", {}))


def terminator_case(ctx, case):
    """a rule is consulted as a terminator of chain X iff its alt list names X - in every document, whatever else the document
    contains and in whatever order (each block of a concatenation behaves as it does alone)"""
    ctx.count("evaluations")
    ctx.current = case
    alts, order = case["alts"], case["order"]
    md = _term_md(alts, case.get("preset", "commonmark"))
    solo = {k: _term_outcome(md, TERM_DOCS[k]) for k in set(order)}
    ctx.count("terminator.cases")
    # the solo outcomes follow from the alt list alone
    exp = {"P": "paragraph" in alts, "Q": "blockquote" in alts, "L": "paragraph" in alts}
    for k in set(order) & set(exp):
        split = any(t == "pct" for t, _ in solo[k][0])
        if split != exp[k]:
            ctx.violation("terminator-chain-applied-ne-registered", f"rule with alt {alts}: document {TERM_DOCS[k]!r} gives {solo[k][0]} ('%%' line {'must' if exp[k] else 'must not'} interrupt)", case)
            return
    if "R" in order and (solo["R"][1] == ["A"]) != ("reference" not in alts):
        ctx.violation("terminator-chain-applied-ne-registered", f"rule with alt {alts}: document {TERM_DOCS['R']!r} gives references {solo['R'][1]} {solo['R'][0]}", case)
        return
    want_toks, want_refs = [], set()
    for k in order:
        want_toks += solo[k][0]
        want_refs |= set(solo[k][1])
    got = _term_outcome(md, "\n".join(TERM_DOCS[k] for k in order))
    ctx.nontrivial("term", tuple(alts), tuple(order), case.get("preset"))
    if got != (want_toks, sorted(want_refs)):
        ctx.violation("terminator-chain-applied-ne-registered", f"rule with alt {alts}: blocks {order} in one document give {got}, each alone {want_toks} {sorted(want_refs)}", case)


# ---- (4) a built-in name registered twice: what is applied follows what is reported, for every rule's own behaviour -------------------
SIG = {
    "block": {"table": "|a|b|\n|-|-|\n|c|d|\n", "code": "    x\n", "fence": "```\nx\n```\n", "blockquote": "> x\n", "hr": "***\n", "list": "- x\n",
              "reference": "[a]: /u\n\n[a]\n", "html_block": "<div>\nx\n</div>\n", "heading": "# x\n", "lheading": "x\n===\n"},
    "inline": {"newline": "a\nb", "escape": "\\*a", "backticks": "`x`", "strikethrough": "~~x~~", "emphasis": "*x*", "link": "[a](u)",
               "image": "![a](u)", "autolink": "<http://a.b>", "html_inline": "<b>x", "entity": "&amp; &#35;"},
    "inline2": {"emphasis": "*x*", "strikethrough": "~~x~~"},
}
DUP_COMBINED = "- i\n\n      c1\n\n> q\n>\n>     c2\n\n    c3\n\n***\n\n# h\n\n```\nf\n```\n\n*e* `b` [l](u) ~~s~~ &amp; \\* <http://a.b>\n"
DUP_INTERRUPT = "p\n```\nf\n```\np\n# h\np\n> q\n***\np\n- l\n\np\n<div>\n\n> q\n```\nf\n```\n\n- i\n# h\n\n|a|b|\n|-|-|\n|c|d|\n> q\n\n[r]:\n# h\n"
DUP_SCRIPTS = [
    [("disable", "N")], [("disable", "N"), ("enable", "N")], [("parse",), ("disable", "N")], [("disable", "N"), ("parse",), ("enable", "N"), ("disable", "N")],
    [("md.disable", "N")], [("md.disable", "N"), ("parse",), ("md.enable", "N")], [("enable", "N")], [],
    [("md.disable", "N"), ("md.enable", "N"), ("disable", "N")],
]


def _builtin_fn(chain, name):
    from markdown_it import parser_block, parser_inline
    rules = {"block": parser_block._rules, "inline": parser_inline._rules, "inline2": parser_inline._rules2}[chain]
    for r in rules:
        if r[0] == name:
            return r[1], ({"alt": list(r[2])} if len(r) > 2 else None)
    raise KeyError(name)


def duplicate_case(ctx, case):
    """a second registration of a built-in name carrying the built-in function, next to the first; then toggles by that name.
    Whatever the ruler reports as active afterwards must be what parsing applies: the rendering must equal that of a fresh
    instance (no duplicates) whose chains were set to exactly the reported active names."""
    from markdown_it import MarkdownIt
    ctx.count("evaluations")
    ctx.current = case
    chain, name, how, preset = case["chain"], case["name"], case["how"], case["preset"]
    md = MarkdownIt(preset, {"linkify": False, "html": True})

    def ruler_of(m, ch):
        return m.inline.ruler2 if ch == "inline2" else m[ch].ruler
    r = ruler_of(md, chain)
    if name not in r.get_all_rules():
        return
    fn, opts = _builtin_fn(chain, name)
    args = (name, name, fn) + ((opts,) if opts else ())
    getattr(r, how)(*args)
    if r.get_all_rules().count(name) != 2:
        ctx.violation("duplicate-name:registration-lost", f"{how}({name!r}, {name!r}, fn) on the {chain} ruler left {r.get_all_rules()}", case)
        return
    try:
        for step in case["script"]:
            if step[0] == "parse":
                md.render(SIG[chain][name])
            elif step[0].startswith("md."):
                getattr(md, step[0][3:])(name)
            else:
                getattr(r, step[0])(name)
    except Exception as e:
        ctx.violation("duplicate-name:unexpected-exception", f"{type(e).__name__}: {e} in {case}", case)
        return
    rep = md.get_active_rules()
    ref = MarkdownIt(preset, {"linkify": False, "html": True})
    for ch in ("core", "block", "inline", "inline2"):
        ruler_of(ref, ch).enableOnly(list(dict.fromkeys(rep[ch])))
    off = MarkdownIt(preset, {"linkify": False, "html": True})
    ruler_of(off, chain).disable(name)
    ctx.count("duplicate.cases")
    for src in (SIG[chain][name], DUP_COMBINED, DUP_INTERRUPT):
        got, want = md.render(src), ref.render(src)
        ctx.count("duplicate.renderings_compared")
        if name in rep[chain]:
            ctx.count("duplicate.reported_active")
            if off.render(src) != want:
                ctx.count("duplicate.discriminating_probes")
                ctx.nontrivial("dup", chain, name, how, preset, repr(case["script"]), src)
        else:
            ctx.count("duplicate.reported_inactive")
        if got != want:
            ctx.violation("duplicate-name:applied-ne-reported", (f"{chain} ruler holds two rules named {name!r} (second registered with {how}, built-in function); after "
                          f"{case['script']} it reports {name!r} {'active' if name in rep[chain] else 'inactive'}, but {src!r} renders {got!r} where an instance "
                          f"set to exactly the reported rules renders {want!r}"), case)
            return


def duplicate_cases():
    for chain, sigs in SIG.items():
        for name in sigs:
            for how in ("after", "before"):
                for preset in ("commonmark", "js-default", "gfm-like"):
                    for script in DUP_SCRIPTS:
                        yield {"kind": "duplicate", "chain": chain, "name": name, "how": how, "preset": preset,
                               "script": [[x if x != "N" else name for x in st] for st in script]}


def replay(ctx, case):
    if case.get("kind") == "terminator":
        terminator_case(ctx, case)
    elif case.get("kind") == "duplicate":
        duplicate_case(ctx, case)
    else:
        check_case(ctx, case)


def run(ctx):
    rng = ctx.rng
    # every preset must be fully observable by the probe (otherwise the facade monitor would be blind)
    if ctx.shard == 0:
        from markdown_it import MarkdownIt
        for preset in ("commonmark", "js-default", "zero", "gfm-like"):
            md = MarkdownIt(preset)
            md.options["linkify"] = False
            obs = observe(md, {})
            if obs != md.get_active_rules():
                ctx.violation("facade-applied-ne-reported", f"fresh {preset}: entered {obs} != reported {md.get_active_rules()}", {"kind": "facade", "hist": {"preset": preset, "ops": []}})
            ctx.count("facade.fresh_presets_observed")
    import itertools
    k = 0
    chains = ["paragraph", "reference", "blockquote", "list"]
    for n in range(len(chains) + 1):
        for alts in itertools.combinations(chains, n):
            for m in (1, 2, 3):
                for order in itertools.permutations(sorted(TERM_DOCS), m):
                    for preset in ("commonmark", "js-default"):
                        k += 1
                        if ctx.mine(k) and (not ctx.quick or m < 3 or k % 3 == 0):
                            terminator_case(ctx, {"kind": "terminator", "alts": list(alts), "order": list(order), "preset": preset})
    for k, case in enumerate(duplicate_cases()):
        if ctx.mine(k):
            duplicate_case(ctx, case)
    for k in range(ctx.scale(160000, 4000000)):
        ops = gen_ruler_history(rng)
        warm_then_mut = any(o["op"] == "getRules" for o in ops)
        check_case(ctx, {"kind": "ruler", "ops": ops})
        if warm_then_mut:
            ctx.nontrivial("ruler", repr(ops))
        if k % 2999 == 0:
            ctx.sample({"kind": "ruler", "ops": ops})
    for k in range(ctx.scale(40000, 800000)):
        hist = gen_facade_history(rng)
        ctx.count("facade.histories")
        check_case(ctx, {"kind": "facade", "hist": hist})
        ctx.nontrivial("facade", repr(hist))
        if k % 999 == 0:
            ctx.sample({"kind": "facade", "hist": {"preset": hist["preset"], "ops": hist["ops"][:8]}})


@selftest
def _selftest():
    from vf.worker import Ctx
    ctx = Ctx("C11", "quick", 0, 0, 1)
    ops = [{"op": "push", "name": "a", "fn": 1, "alt": ["p"]}, {"op": "push", "name": "b", "fn": 2, "alt": []}, {"op": "getRules", "chain": ""},
           {"op": "enableOnly", "names": ["b", "zz"], "ign": False}, {"op": "disable", "names": "a", "ign": False}]
    assert run_ruler_history(ctx, ops) is None
    # a broken ruler (stale cache after a raising call) must be flagged
    from markdown_it import ruler as R
    orig = R.Ruler.enable

    def bad_enable(self, names, ignoreInvalid=False):
        if isinstance(names, str):
            names = [names]
        out = []
        for n in names:
            i = self.__find__(n)
            if i < 0:
                if ignoreInvalid:
                    continue
                raise KeyError(n)
            self.__rules__[i].enabled = True
            out.append(n)
        self.__cache__ = None
        return out
    R.Ruler.enable = bad_enable
    try:
        r = run_ruler_history(ctx, ops, record=False)
        assert r and r[0] == "ruler-applied-ne-reported", r
    finally:
        R.Ruler.enable = orig
