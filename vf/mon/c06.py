"""C06 — CommonMark container laws: quoting or list-indenting a document nests its blocks."""
from __future__ import annotations

import re

from vf import gen
from vf import workload as W
from vf.selftests import selftest
from vf.util import first_diff, minimize_text, stream

LEVEL = "exploration"
RULE = (
    "cases = (law word over {quote, item(marker)} of length 1..6, tab/CR/NUL-free newline-terminated document D from W-gram/W-soup/"
    "W-corpus/W-lines); each wrapping step is compared with the previous one by twin execution: parse(quote(X)) must be "
    "[blockquote_open, parse(X) with level+1, blockquote_close] with equal env; parse(item(M,X)) must be a one-item list around "
    "parse(X) with level+2 (modulo hidden, leading spaces after a line break inside inline content and the blank runs they leave "
    "in code spans; skipped when the combined first line is a thematic break; table rule off). Non-trivial = D with >=2 blocks or "
    ">=1 container/verbatim block; distinct by (word, D)."
)
ASSUMPTIONS = ["commonmark rules with maxNesting=100 so that depth stays well below maxNesting", "table rule off for the list form (as the property states)"]
MARKERS = ["- ", "* ", "+ ", "1. ", "7) ", "-  ", "-   ", "-    ", "12.  ", "0. ", "123456789. ", "3)    ", "+   ", "99)  "]
CONF_Q = [{"preset": "commonmark", "options": {"maxNesting": 100}}, {"preset": "commonmark", "options": {"maxNesting": 100}, "enable": ["table", "strikethrough"]}]
CONF_L = {"preset": "commonmark", "options": {"maxNesting": 100}}


def floors(tier):
    q = tier == "quick"
    return {"law.quote": 40000 if q else 1000000, "law.item": 40000 if q else 1000000, "depth.4plus": 2000, "marker_width.5plus": 1000,
            "D.lazy": 500, "D.definitions": 1000, "D.html_block": 500, "D.blank_in_verbatim": 300, "hr_exclusions": 5, "D.battery": 5000, "item.lazy_direction_checked": 30000}


def quote(D):
    return "".join("> " + l + "\n" for l in D.split("\n")[:-1])


def item(M, D):
    ls = D.split("\n")[:-1]
    w = " " * len(M)
    return M + ls[0] + "\n" + "".join(w + l + "\n" for l in ls[1:])


def norm_lazy(d):
    """the differences the statement allows for the list form"""
    d["hidden"] = False
    if d["type"] == "inline":
        d["content"] = re.sub(r"\n +", "\n", d["content"])

    def fix(ch):
        for c in ch or []:
            c["content"] = re.sub(r"\n +", "\n", c["content"])
            if c["type"] == "code_inline":
                # a code span continued on a lazy line: the kept leading spaces join the span's blank runs, and the one-space
                # padding rule then strips differently ("\n|\n" -> "|", "\n   |\n   " -> "   |   ")
                c["content"] = re.sub(r" +", " ", c["content"]).strip(" ")
            for k, v in list(c["attrs"].items()):
                if isinstance(v, str):
                    c["attrs"][k] = re.sub(r"\n +", "\n", v)
            fix(c.get("children"))
    fix(d.get("children"))
    return d


def norm_env(env):
    """a definition title continued on a lazy line keeps that line's leading spaces (same allowance as for inline content)"""
    out = {}
    for k, v in env.items():
        if k == "references":
            out[k] = {lab: dict(r, title=re.sub(r"\n +", "\n", r.get("title", ""))) for lab, r in v.items()}
        elif k == "duplicate_refs":
            out[k] = [dict(r, title=re.sub(r"\n +", "\n", r.get("title", ""))) for r in v]
        else:
            out[k] = v
    return out


def lazy_consistent(orig, wrapped, width):
    """the allowance is one-sided: a continuation line may KEEP up to `width` more leading spaces in the list form, never fewer"""
    if orig == wrapped:
        return True
    lo, lw = orig.split("\n"), wrapped.split("\n")
    if len(lo) != len(lw) or lo[0] != lw[0]:
        return False
    for x, y in zip(lo[1:], lw[1:]):
        if x.lstrip(" ") != y.lstrip(" "):
            return False
        extra = (len(y) - len(y.lstrip(" "))) - (len(x) - len(x.lstrip(" ")))
        if not 0 <= extra <= width:
            return False
    return True


def lazy_direction(a, b, width, path=""):
    """a, b: raw dumps (plain form, list form) already known to agree after norm_lazy; returns a message if some string differs
    in the direction the statement does not allow"""
    if isinstance(a, str) and isinstance(b, str):
        if not lazy_consistent(a, b, width):
            return f"{path}: {a!r} (plain) vs {b!r} (in item of width {width})"
        return None
    if isinstance(a, dict) and isinstance(b, dict):
        if a.get("type") == "code_inline":
            return None
        for k in a:
            if k in b:
                r = lazy_direction(a[k], b[k], width, f"{path}.{k}")
                if r:
                    return r
    elif isinstance(a, (list, tuple)) and isinstance(b, (list, tuple)):
        for i, (x, y) in enumerate(zip(a, b)):
            r = lazy_direction(x, y, width, f"{path}[{i}]")
            if r:
                return r
    return None


def dump(toks, dlevel=0, lazy=False):
    out = stream(toks)
    for d in out:
        d["level"] -= dlevel
        if lazy:
            norm_lazy(d)
    return out


def quote_law(md, X):
    e1, e2 = {}, {}
    t1 = md.parse(X, e1)
    t2 = md.parse(quote(X), e2)
    if not (len(t2) >= 2 and t2[0].type == "blockquote_open" and t2[-1].type == "blockquote_close"
            and sum(1 for t in t2 if t.level == 0) == 2):
        return "quote:not-one-blockquote", f"top-level {[t.type for t in t2 if t.level == 0][:6]}"
    nl = X.count("\n")
    if t2[0].map != [0, nl] and any(t.map for t in t1):
        # the quote must span all lines up to the last non-blank one at least
        last = max((t.map[1] for t in t1 if t.map), default=0)
        if not (t2[0].map and t2[0].map[0] == 0 and last <= t2[0].map[1] <= nl):
            return "quote:outer-map", f"blockquote map {t2[0].map} for {nl} lines"
    a, b = dump(t1), dump(t2[1:-1], 1)
    d = first_diff(a, b)
    if d:
        return "quote:contents-differ", d
    if e1 != e2:
        return "quote:env-differs", f"{e1!r} vs {e2!r}"[:300]
    return None


def item_law(md, M, X, ctx=None):
    e1, e2 = {}, {}
    t1 = md.parse(X, e1)
    t2 = md.parse(item(M, X), e2)
    if t2 and t2[0].type == "hr" and t2[0].map == [0, 1]:
        if ctx is not None:
            ctx.count("hr_exclusions")
        return None
    if not (len(t2) >= 4 and t2[0].type in ("bullet_list_open", "ordered_list_open") and t2[1].type == "list_item_open"
            and t2[-2].type == "list_item_close" and sum(1 for t in t2 if t.level == 0) == 2 and sum(1 for t in t2 if t.level == 1) == 2):
        return "item:not-one-item-list", f"levels0/1 {[t.type for t in t2 if t.level <= 1][:8]}"
    ordered = M.strip()[-1] in ".)"
    if ordered != (t2[0].type == "ordered_list_open"):
        return "item:list-kind", f"marker {M!r} gave {t2[0].type}"
    a, b = dump(t1, 0, True), dump(t2[2:-2], 2, True)
    d = first_diff(a, b)
    if d:
        return "item:contents-differ", d
    if norm_env(e1) != norm_env(e2):
        return "item:env-differs", f"{e1!r} vs {e2!r}"[:300]
    r = lazy_direction(dump(t1, 0, False), dump(t2[2:-2], 2, False), len(M)) or lazy_direction(
        {k: v for k, v in e1.items() if k in ("references", "duplicate_refs")}, {k: v for k, v in e2.items() if k in ("references", "duplicate_refs")}, len(M), "env")
    if ctx is not None:
        ctx.count("item.lazy_direction_checked")
    if r:
        return "item:continuation-line-lost-spaces", r
    return None


def apply_word(word, D):
    X = D
    for w in word:
        X = quote(X) if w == "Q" else item(w, X)
    return X


def check_case(ctx, case, minimize=True):
    """case: {"word": [...], "D": str, "table": bool} - the LAST step of the word is the one compared"""
    ctx.count("evaluations")
    ctx.current = case
    word, D = case["word"], case["D"]
    conf = CONF_Q[1] if case.get("table") and all(w == "Q" for w in word) else CONF_L
    md = W.get_md(conf)

    def run_word(D):
        X = apply_word(word[:-1], D)
        last = word[-1]
        try:
            if last == "Q":
                return quote_law(md, X)
            if not X or X[0] in " \n":
                return None
            return item_law(md, last, X, ctx if D is case["D"] else None)
        except Exception as e:
            return None
    r = run_word(D)
    ctx.count("law.quote" if word[-1] == "Q" else "law.item")
    if len(word) >= 4:
        ctx.count("depth.4plus")
    if word[-1] != "Q" and len(word[-1]) >= 5:
        ctx.count("marker_width.5plus")
    if r is None:
        return True
    key, msg = r
    if minimize and not ctx.replaying:
        def fails(s):
            if not s.endswith("\n") or not s.strip(" \n"):
                return False
            rr = run_word(s)
            return rr is not None and rr[0] == key
        D2 = minimize_text(D, fails, 4.0)
        case = dict(case, D=D2)
        r2 = run_word(D2)
        if r2:
            msg = r2[1]
    ctx.violation(key, f"{msg} | word={word} D={case['D']!r} wrapped={apply_word(word, case['D'])!r}"[:1500], case)
    return False


def replay(ctx, case):
    check_case(ctx, case, minimize=False)


def clean(D):
    D = D.replace("\t", " ").replace("\r", "").replace("\x00", "")
    if not D.endswith("\n"):
        D += "\n"
    return D


def classify_D(ctx, md, D):
    toks = md.parse(D)
    tops = sum(1 for t in toks if t.level == 0 and t.nesting >= 0)
    types = {t.type for t in toks}
    nt = tops >= 2 or bool(types & {"blockquote_open", "bullet_list_open", "ordered_list_open", "fence", "code_block", "html_block", "table_open"})
    if "html_block" in types:
        ctx.count("D.html_block")
    if re.search(r"^\[[^\]]+\]:", D, re.M):
        ctx.count("D.definitions")
    for t in toks:
        if t.type in ("fence", "code_block", "html_block") and "\n\n" in t.content:
            ctx.count("D.blank_in_verbatim")
            break
    # lazy continuation: a paragraph line inside a container that lacks the container's prefix
    if re.search(r"^> ?\S.*\n[^>\s#\-*+`~<\[=]", D, re.M) or re.search(r"^[-*+] \S.*\n[^\s\-*+>#]", D, re.M):
        ctx.count("D.lazy")
    return nt


def run(ctx):
    rng = ctx.rng
    md = W.get_md(CONF_L)
    n = ctx.scale(50000, 1500000)
    corp = [t for _, t in gen.corpus() if len(t) < 500]

    # containers whose last line holds an unfinished construct, DIRECTLY followed (no blank line) by a context-sensitive line
    bases = ["> [foo]:", "> [foo]: /u", "> a", "> ```", "> - x", "> # h", ">     code", "> > > a", "> > b", "- a", "- [r]:", "1. x", "> <div>", "> |a|b|\n> |-|-|",
             "> t\n> ===", "- > q", "> 1. o", "- - n", ">", "-", "> [r]: /u\n> 'ti", "```\nf", "<div>", "|a|b|\n|-|-|", "para", "# h",
             "[foo]:", "[foo]: /u", "[foo]: /u\n'ti", "[foo]:\n/u", "[foo]: /u 'a", "[foo]: /u \"first\n    second", "[a\n  b]:", "[foo]: <u", "t", "`c", "*e", "[l](/u\n  'ti", "<b",
             "> [foo]: /u \"first\n>     second",
             # a backslash at the end of the line inside a destination (escaped line ending)
             ">[r]:\\", "[r]:\\", "> [r]: <a\\", "[l](\\", "> [l](/u\\", "> [r]: /u\\", "- [r]:\\", "> [r]:\n> \\"]
    adjs = ["***", "---", "-", "<div>", "- b", ">     - b", ">  c", "    code", "'title'", "\"t\" rest", "===", "2. y", "> d", "lazy", "  lazy2", "# h", "```", "|c|d|",
            "[x]: /y", "1) z", ">     code", ">> e", "      six", "+", "* * *", "/dest", "<u v>", "(paren) x", "-|-",
            "x)", "b>", "x", "1.", ">x", "  ***", " - b", "   > q", " ```", "  <div>", "   # h", "    third\"", "  t'", " 1.", "~~~", "   ---"]
    battery = [b + "\n" + a + "\n" for b in bases for a in adjs]

    def gen_D():
        r = rng.random()
        if r < 0.2:
            d = rng.choice(battery)
            if rng.random() < 0.3:
                d += rng.choice(adjs) + "\n"
            ctx.count("D.battery")
            return d
        if r < 0.45:
            return clean(gen.gram(rng, nblocks=rng.randint(1, 4)))
        if r < 0.75:
            return clean(gen.soup(rng, maxlines=6))
        if r < 0.9:
            return clean(rng.choice(corp))
        vocab = gen.LINE_VOCAB_SMALL + gen.LINE_VOCAB_EXTRA
        return clean("\n".join(rng.choice(vocab) for _ in range(rng.randint(1, 4))))

    for k in range(n):
        D = gen.strip_surrogates(gen_D())
        if not D.strip(" \n"):
            continue
        try:
            nt = classify_D(ctx, md, D)
        except Exception:
            continue
        depth = rng.choice([1, 1, 2, 3, 4, 5, 6])
        word = []
        X = D
        ok = True
        for step in range(depth):
            if rng.random() < 0.5 or X[0] in " \n":
                w = "Q"
            else:
                w = rng.choice(MARKERS)
            word.append(w)
            case = {"word": list(word), "D": D, "table": rng.random() < 0.3}
            ok = check_case(ctx, case)
            if nt:
                ctx.nontrivial(tuple(word), D)
                ctx.count("nontrivial")
            if not ok:
                break
            X = quote(X) if w == "Q" else item(w, X)
            if X and X[0] in " \n":
                pass
        if k % 1999 == 0:
            ctx.sample({"word": word, "D": D[:200]})


@selftest
def _selftest():
    from markdown_it import MarkdownIt
    md = MarkdownIt("commonmark")
    assert quote_law(md, "a\n\n- b\n  c\n") is None
    assert item_law(md, "- ", "a\n\n> b\nc\n") is None
    assert item_law(md, "1. ", "```\nx\n\ny\n```\n") is None
    # a wrong "law" must be flagged: compare against a different document
    t1 = dump(md.parse("a\n"))
    t2 = dump(md.parse("> b\n")[1:-1], 1)
    assert first_diff(t1, t2)
