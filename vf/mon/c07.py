"""C07 — top-level blocks are parsed independently: documents compose by concatenation."""
from __future__ import annotations

import re

from vf import conf as C
from vf import gen
from vf import workload as W
from vf.mon.c03 import sample_conf
from vf.selftests import selftest
from vf.util import first_diff, md_blank, minimize_text, src_lines, stream

LEVEL = "exploration"
RULE = (
    "cases = (configuration, A, B) with A, B tab-free newline-terminated documents from W-gram/W-soup/W-corpus/W-lines, a battery of blocks directly followed by context-sensitive lines, and chains "
    "A=A1+A2+..; side conditions decided behaviourally as the statement phrases them: A is closed iff parse(A+'\\nzzz\\n') = "
    "parse(A) ++ shifted paragraph; B starts in column 0; seam not list+list / code+code. Oracle: block tokens and inline content "
    "(children excluded) of A+'\\n'+B equal those of A followed by those of B with maps shifted. Non-trivial = admissible pair where "
    "A ends in a container/list and B is not a plain paragraph; distinct by (conf id, A, B)."
    " Also systematic: ~85 trace-leaving documents / delicate constructs / construct-vs-near-miss lines crossed with each other on four configurations, chains of them, and boundary-value documents as A."
)
ASSUMPTIONS = ["children excluded because reference definitions legitimately act document-wide (as the property states)"]


def floors(tier):
    q = tier == "quick"
    return {"pairs.admissible": 30000 if q else 800000, "A_ends.list": 2000, "A_ends.blockquote": 2000, "A_ends.fence": 500, "A_ends.table": 200,
            "B_starts.nonparagraph": 10000, "chains": 2000, "skipped.A_open": 100, "B.battery": 10000, "hook.parses": 5000,
            "pairs.systematic": 10000, "pairs.limits": 300}


def blocks(toks, shift=0):
    out = stream(toks, children=False)
    for d in out:
        if d["map"]:
            d["map"] = [d["map"][0] + shift, d["map"][1] + shift]
    return out


def trim(bl, lines):
    """map ends pulled back over trailing blank lines (copy)"""
    out = []
    for d in bl:
        d = dict(d)
        if d["map"]:
            b, e = d["map"]
            while e - 1 > b and e - 1 < len(lines) and md_blank(lines[e - 1]):
                e -= 1
            d["map"] = [b, e]
        out.append(d)
    return out


LIST_OPEN = ("bullet_list_open", "ordered_list_open", "list_item_open", "blockquote_open")
LIST_LINE = re.compile(r"^([-+*]|\d{1,9}[.)])( |\n|$)")


def law(md, A, B, ctx=None):
    """returns None (holds / not admissible) or (key, msg)"""
    tA = md.parse(A)
    la = A.count("\n")
    bA = blocks(tA)
    # content nested at the maxNesting limit is cut off (skipped to the end of input) by design: stay well below it
    mn = int(md.options["maxNesting"])
    if any(t.level >= mn - 2 for t in tA):
        if ctx:
            ctx.count("skipped.at_nesting_limit")
        return None
    srcP = A + "\nzzz\n"
    probe = trim(blocks(md.parse(srcP)), src_lines(srcP))
    if probe != trim(bA + blocks(md.parse("zzz\n"), la + 1), src_lines(srcP)):
        # Only a fenced block or an HTML block that is still open at the end of A can swallow a non-indented paragraph that
        # follows a blank line.  If A's last leaf block is neither, A is closed by construction and the probe itself has shown
        # that a later block is not parsed independently (the side condition must not be decided by the defect it guards).
        leaf = next((t for t in reversed(tA) if t.nesting >= 0), None)
        if leaf is not None and leaf.type not in ("fence", "html_block"):
            d = first_diff(probe, trim(bA + blocks(md.parse("zzz\n"), la + 1), src_lines(srcP)))
            return "closed-document-affects-following-paragraph", f"A ends with {leaf.type} yet a paragraph after a blank line is not a new independent top-level block: {d}"
        if ctx:
            ctx.count("skipped.A_open")
        return None
    tB = md.parse(B)
    if tA and tB:
        lastA = tA[-1].type
        firstB = tB[0].type
        # B's first line may be list syntax even when B alone parses as something else (GFM table precedence on "- |a")
        if lastA.endswith("list_close") and (firstB.endswith("list_open") or LIST_LINE.match(B)):
            if ctx:
                ctx.count("skipped.list_list")
            return None
        if lastA == "code_block" and firstB == "code_block":
            if ctx:
                ctx.count("skipped.code_code")
            return None
    if ctx:
        ctx.count("pairs.admissible")
        if tA:
            lt = tA[-1].type
            for k in ("list", "blockquote", "fence", "table", "html_block", "heading", "paragraph", "hr", "code_block"):
                if lt.startswith(k) or lt.endswith(k + "_close") or (k == "list" and lt.endswith("list_close")):
                    ctx.count("A_ends." + k)
                    break
        if tB and tB[0].type != "paragraph_open":
            ctx.count("B_starts.nonparagraph")
    srcAB = A + "\n" + B
    got = blocks(md.parse(srcAB))
    want = bA + blocks(tB, la + 1)
    d = first_diff(got, want)
    if d is None:
        return None
    linesAB = src_lines(srcAB)
    d2 = first_diff(trim(got, linesAB), trim(want, linesAB))
    if d2:
        return "concat-differs", d2
    # only map ends over blank lines differ: known mechanism iff confined to list tokens of A
    if len(got) == len(want) and all(g == w or (g["type"] in LIST_OPEN and i < len(bA)) for i, (g, w) in enumerate(zip(got, want))):
        return "container-map-absorbs-blank-line", d
    return "map-end-over-blank-lines", d


# ---- amplifier (invariant at a hook): steers the search, never the verdict --------------------------------------------------
def hooked_instance(conf):
    """monitoring instance whose block rules are wrapped (through the public Ruler.at) so that after every successful top-level
    rule the state a LATER block can see is compared with a fresh state's; differences are recorded in md._vf_alarms"""
    from markdown_it.rules_block.state_block import StateBlock
    md = C.build(conf)
    md._vf_alarms = []
    ruler = md.block.ruler
    for rule in list(ruler.__rules__):
        def wrap(fn, name):
            def w(state, startLine, endLine, silent):
                ok = fn(state, startLine, endLine, silent)
                if ok and not silent and state.level == 0 and state.blkIndent == 0 and startLine < state.line:
                    fresh = getattr(state, "_vf_fresh", None)
                    if fresh is None:
                        fresh = state._vf_fresh = StateBlock(state.src, state.md, {}, [])
                    diffs = []
                    for f in ("blkIndent", "listIndent", "lineMax", "ddIndent"):
                        if getattr(state, f) != getattr(fresh, f):
                            diffs.append(f)
                    ln = state.line
                    for tab in ("bMarks", "eMarks", "tShift", "sCount", "bsCount"):
                        if getattr(state, tab)[ln:] != getattr(fresh, tab)[ln:]:
                            diffs.append(tab)
                    if diffs:
                        md._vf_alarms.append((name, ln, diffs))
                return ok
            return w
        ruler.at(rule.name, wrap(rule.fn, rule.name), {"alt": list(rule.alt)})
    return md


_hooked = {}


def check_case(ctx, case, minimize=True):
    ctx.count("evaluations")
    ctx.current = case
    conf, A, B = case["conf"], case["A"], case["B"]
    if not B or B[0] in " \n":
        ctx.count("skipped.B_indented_or_blank")   # side condition of the statement: B starts in column 0
        return
    md = W.get_md(conf)
    try:
        r = law(md, A, B, ctx)
    except Exception:
        ctx.count("skipped.exception")
        return
    if r is None:
        return
    key, msg = r
    if minimize and not ctx.replaying:
        def ok_doc(s):
            return s.endswith("\n") and s.strip(" \n") != ""

        def failsA(s):
            try:
                rr = law(md, s, B) if ok_doc(s) else None
            except Exception:
                return False
            return rr is not None and rr[0] == key
        A = minimize_text(A, failsA, 3.0)

        def failsB(s):
            try:
                rr = law(md, A, s) if ok_doc(s) and s[0] not in " \n" else None
            except Exception:
                return False
            return rr is not None and rr[0] == key
        B = minimize_text(B, failsB, 3.0)
        case = dict(case, A=A, B=B)
        rr = law(md, A, B)
        if rr:
            msg = rr[1]
    ctx.violation(key, f"{msg} | conf={conf} A={case['A']!r} B={case['B']!r}", case)


def replay(ctx, case):
    check_case(ctx, case, minimize=False)


def clean(D):
    D = D.replace("\t", " ").replace("\r", "").replace("\x00", "")
    if not D.endswith("\n"):
        D += "\n"
    return gen.strip_surrogates(D)


# documents that could leave document-wide traces (a flag, a budget, a cache) ...
SETTERS = ["T\n===\n", "T\n---\n", "x\n-\n", "|a|b|\n|-|-|\n|c|\n", "[r]: /u\n", "<div>\nx\n</div>\n", "```\nc\n```\n", "~~~\nc\n~~~\n", "* * *\n", "> q\n",
           "- a\n  - b\n    - c\n", "1. x\n", "    code\n", "# h\n", "a\\\nb\n", "<!-- c -->\n", "<?p?>\n", "<![CDATA[x]]>\n", "&amp;\n", "*e* `c` [l](u)\n", "![i](s)\n",
           "a  \nb\n", "10. w\n", "+ p\n", "> - q\n> - r\n", "- [r]: /in\n", "> [q]: /in\n", "| a |\n|:-:|\n", "\\# x\n", "<a@b.c>\n", "> T\n> ===\n", "- T\n  ---\n",
           "x\n***\n", "<script>\ns\n</script>\n", "<pre>\n\np\n</pre>\n", "> ```\n> c\n", "- ~~~\n  c\n", "1) a\n2) b\n", "-\n", ">\n", "a\n    b\n"]
# ... and constructs whose recognition is delicate: in deep or wide list items, in quotes, short table rows, lazy lines
SENSITIVE = ["10. T\n    ===\n", "- - T\n    ===\n", "- x\n  - T\n    ---\n", "> T\n> ===\n", "> - T\n>   ===\n", "100. T\n     ---\n", "1. - T\n     ===\n",
             "-   T\n    ===\n", "- |a|b|\n  |-|-|\n  |c|\n", "> |a|\n> |-|\n> |c|d|\n", "|a|b|c|\n|-|-|-|\n|x|\n|y|z|\n", "10. |a|b|\n    |-|-|\n    |c|\n", "- ```\n  c\n  ```\n",
             "1. ~~~\n   c\n   ~~~\n", "> <div>\n> x\n", "- <div>\n  x\n", "- * * *\n", "- a\n  ***\n", "-     c\n", "10.     c\n", "- x\n\n      c\n", "- # h\n", "1. # h\n   ## i\n",
             "> a\nb\n", "- a\nb\n", "7. x\n8. y\n", "-   wide\n    cont\n", "> > q\n> r\ns\n", "- [r]: /u\n  't'\n", "10. [r]:\n    /u\n", "> 1. a\n>\n>    b\n", "- - - x\n      ===\n",
             "1. a\n\n   T\n   ---\n", "- a\n\n  |x|y|\n  |-|-|\n  |z|\n", "> - a\n>   - b\n>     ===\n", "10. > T\n    > ===\n", "-\tT\n\t===\n".replace("\t", "   "), "+ a\n+\n+ c\n"]
# a construct and its near miss (a line that begins with the same characters but is something else): whatever is remembered
# about the first one met - per tag name, per marker, per prefix - must not decide how the other one is read, in either order
NEAR = [("<link rel=x>\n", "<link:chapter-2> text\n"), ("<div>\nx\n</div>\n", "<div:x> y\n"), ("<title>t</title>\n", "<title:draft> z\n"), ("<section>\n", "<section:4> w\n"),
        ("<pre>\np\n</pre>\n", "<pre:1> q\n"), ("<script>\ns\n</script>\n", "<script:2> s\n"), ("</p>\n", "</p:x> v\n"), ("<h1>H</h1>\n", "<h1:a> b\n"),
        ("# h\n", "#hashtag\n"), ("- x\n", "-x\n"), ("1. x\n", "1.x\n"), ("***\n", "***a\n"), ("```\nc\n```\n", "``` `x`\n"), ("[r]: /u\n", "[r]:x y z\n"),
        ("t\n===\n", "t\n=== x\n"), ("|a|b|\n|-|-|\n", "|a|b|\n|-|x|\n"), ("<!-- c -->\n", "<!- c ->\n"), ("<?php x ?>\n", "<? x\n"), ("<a@b.c>\n", "<a href=x>\n"),
        ("    code\n", "   text\n"), ("~~~\nf\n~~~\n", "~~ s ~~\n"), ("> q\n", ">q\n")]
SETTERS += ["[r]: /u\n", "[Foo Bar]: /v 't'\n", "~~~\nt\n~~~\n", "````\nq\n````\n"]
SENSITIVE += ["[r]: javascript:x\n", "[R]: data:text/html,y\n", "[foo  bar]: vbscript:z 't'\n", "[r]: <file:///e>\n", "> ```\n> c\n> ```\n> after\n", "> ~~~\n> t\n> ~~~\n> after\n",
              "- > ```\n  > c\n  > ```\n  > z\n", "> - ```\n>   c\n>   ```\n>   z\n", "> ````\n> ```\n> ````\n> w\n"]
SETTERS += [x for pair in NEAR for x in pair]
SENSITIVE += [x for pair in NEAR for x in pair]
BATTERY_CONFS = [{"preset": "commonmark", "enable": ["table", "strikethrough"]}, {"preset": "js-default"}, {"preset": "commonmark"}, {"preset": "gfm-like", "options": {"linkify": False}}]


def run(ctx):
    rng = ctx.rng
    # every (trace-leaving document | delicate construct) followed by every delicate construct, on four configurations; chains of setters
    pairs = [(a, b) for a in SETTERS + SENSITIVE for b in SENSITIVE if b[0] not in " \n"]   # B starts in column 0 (side condition)
    for _ in range(ctx.scale(1500, 60000)):
        pairs.append(("\n".join(rng.sample(SETTERS, rng.randint(2, 4))), rng.choice([b for b in SENSITIVE if b[0] not in " \n"])))
    for i, (a, b) in enumerate(pairs):
        if not ctx.mine(i):
            continue
        for conf in BATTERY_CONFS:
            ctx.count("pairs.systematic")
            before = ctx.counters["pairs.admissible"]
            check_case(ctx, {"conf": conf, "A": a, "B": b})
            if ctx.counters["pairs.admissible"] > before:
                ctx.nontrivial(C.conf_id(conf), a, b)
    # boundary-value documents (vf.limits) as A: budgets and limits reached in A must not carry over into B
    from vf import limits
    for i, (name, src) in enumerate(limits.docs(big=True)):
        if len(src) > (60000 if ctx.quick else 200000):
            continue
        for j, b in enumerate((SENSITIVE[10], SENSITIVE[0], SENSITIVE[8], SENSITIVE[12], SENSITIVE[23], "> " * 12 + "q\n", "[" * 12 + "t" + "](u)" * 12 + "\n")):
            if not ctx.mine(i * 7 + j) or (j > 1 and len(src) > 8000 and ctx.quick):
                continue
            ctx.count("pairs.limits")
            check_case(ctx, {"conf": BATTERY_CONFS[1] if len(src) > 20000 else rng.choice(BATTERY_CONFS[:2]), "A": src, "B": b}, minimize=False)
    corp = [t for _, t in gen.corpus() if len(t) < 400]
    vocab = gen.LINE_VOCAB_SMALL + gen.LINE_VOCAB_EXTRA

    def doc():
        r = rng.random()
        if r < 0.4:
            return clean(gen.gram(rng, nblocks=rng.randint(1, 3)))
        if r < 0.65:
            return clean(gen.soup(rng, maxlines=5))
        if r < 0.8:
            return clean(rng.choice(corp))
        return clean("\n".join(rng.choice(vocab) for _ in range(rng.randint(1, 4))))

    followers = [b for b in SENSITIVE if b[0] not in " \n"] + ["- x\n", "  - x\n".lstrip(), "1. x\n", "> q\n", "zz\n", "===\n", "---\n", "# h\n", "```\nc\n```\n", "[r]: /u\n", "|a|b|\n|-|-|\n|c|d|\n",
                 "<div>\nx\n</div>\n", "* * *\n", "+ y\n\n  z\n", "2) w\n", "a\nb\n", "-\n", ">\n", "\\\n", "<!-- c -->\n"]
    # sensitive-follower battery: a block DIRECTLY followed (no blank line) by lines whose reading depends on parser context
    bases = ["|a|b|\n|-|-|\n|c|d|\n", "|a|\n|-|\n", "para\n", "> q\n", "- i\n", "1. o\n", "```\nf\n```\n", "# h\n", "<div>\nx\n", "t\n===\n", "[r]: /u\n", "> - n\n", "- > m\n"]
    adj = ["2. c", "-", "- x", "1. y", "1.", "> q", ">", "# h", "---", "===", "```", "    ind", "<div>", "|x|y|", "lazy", "  two", "* * *", "+", "10) z", "[r2]: /v", "\\", "-|-", ":-:", "a|b"]
    battery = [b + a1 + "\n" for b in bases for a1 in adj] + [b + a1 + "\n" + a2 + "\n" for b in bases[:6] for a1 in adj[:12] for a2 in adj[:12]]
    n = ctx.scale(60000, 2000000)
    for k in range(n):
        A = doc()
        if rng.random() < 0.25:
            for _ in range(rng.randint(2, 5)):
                A = A + "\n" + doc()
            ctx.count("chains")
        r0 = rng.random()
        B = doc() if r0 < 0.55 else (rng.choice(followers) if r0 < 0.7 else rng.choice(battery))
        if r0 >= 0.7:
            ctx.count("B.battery")
        if not B.strip(" \n") or B[0] in " \n" or not A.strip(" \n"):
            ctx.count("skipped.B_indented_or_blank")
            continue
        conf = sample_conf(rng) if rng.random() < 0.6 else rng.choice(W.PANEL)
        case = {"conf": conf, "A": A, "B": B}
        before = ctx.counters["pairs.admissible"]
        check_case(ctx, case)
        if k % 4 == 0:
            # amplifier: if a top-level rule left future-visible state behind while parsing A, try every battery follower on this A
            cid = C.conf_id(conf)
            hm = _hooked.get(cid)
            if hm is None:
                if len(_hooked) > 300:
                    _hooked.clear()
                hm = _hooked[cid] = hooked_instance(conf)
            del hm._vf_alarms[:]
            try:
                hm.parse(A)
            except Exception:
                pass
            ctx.count("hook.parses")
            if hm._vf_alarms:
                ctx.count("hook.alarms")
                if ctx.counters["hook.alarms_expanded"] >= 12:
                    continue   # bounded: the amplifier must not multiply the run time on a tree that leaks everywhere
                ctx.count("hook.alarms_expanded")
                before_v = sum(ctx.vcount.values())
                for B2 in rng.sample(battery, 150):
                    check_case(ctx, {"conf": conf, "A": A, "B": B2}, minimize=False)
                if sum(ctx.vcount.values()) == before_v:
                    ctx.count("hook.alarms_unconfirmed")
                    ctx.info.setdefault("unconfirmed_hook_alarms", [])
                    if len(ctx.info["unconfirmed_hook_alarms"]) < 5:
                        ctx.info["unconfirmed_hook_alarms"].append({"A": A[:120], "alarms": [list(map(str, a)) for a in hm._vf_alarms[:3]]})
        if ctx.counters["pairs.admissible"] > before:
            ctx.nontrivial(C.conf_id(conf), A, B)
        if k % 2999 == 0:
            ctx.sample({"conf": conf, "A": A[:150], "B": B[:100]})


@selftest
def _selftest():
    from markdown_it import MarkdownIt
    md = MarkdownIt()
    assert law(md, "- a\n- b\n", "para\n")[0] == "container-map-absorbs-blank-line"
    assert law(md, "> q\n", "# h\n") is None
    assert law(md, "```\nopen\n", "x\n") is None  # not admissible
    # the comparison itself must see a difference
    assert first_diff(blocks(md.parse("a\n\nb\n")), blocks(md.parse("a\n")) + blocks(md.parse("b\n"), 1)) is not None
