"""C03 — source maps in range, non-empty, nested, ordered, covering."""
from __future__ import annotations

import re

from vf import conf as C
from vf import workload as W
from vf.selftests import selftest
from vf.util import md_blank, minimize_text, src_lines
from vf.worker import fork_ctx

LEVEL = "exploration"
RULE = (
    "cases = (configuration with a random subset of block rules, source); oracle = structural monitor over (normalised source "
    "lines, returned block tokens, env): 0<=b<e<=N, starts on a non-blank line, inside the nearest enclosing mapped container, "
    "not before the previous sibling's end, paragraph/heading/hr/code_block/tr end on a non-blank line, inline content line i "
    "occurs in source line b+i (leading blanks ignored; table cells modulo the documented \\| unescaping) with e-b lines, every "
    "non-blank line covered by a top-level map or a definition map in env. Non-trivial = document with >=1 container token or "
    ">=2 sibling blocks; distinct by (conf id, source)."
)
ASSUMPTIONS = [
    "blank = Markdown blank (spaces/tabs only)",
    "table cell content is compared with the source line modulo '\\|' -> '|' (GFM cell unescaping)",
    "line numbering is that of the normalised input (CRLF/CR -> LF), cross-checked by C17",
]
END_NONBLANK = ("paragraph_open", "heading_open", "hr", "code_block", "tr_open")
MARKERS_RE = re.compile(r"[>\-+*0-9.)]")


def floors(tier):
    q = tier == "quick"
    return {"docs": 100000 if q else 2000000, "maps.inline": 100000, "maps.list_item_open": 20000, "maps.blockquote_open": 20000,
            "maps.fence": 3000, "maps.code_block": 3000, "maps.tr_open": 2000, "maps.html_block": 1000, "maps.heading_open": 5000,
            "nesting_checks": 100000, "inline_line_checks": 100000, "definitions_located": 3000, "coverage_lines": 100000}


def known_trim_shape(cl, lines, b, e):
    """K2 classifier: content lost whole first/last lines that hold only Unicode (non-Markdown) whitespace"""
    k = (e - b) - len(cl)
    if k <= 0:
        return False
    for o in range(k + 1):
        if all(c.lstrip(" \t") in lines[b + o + i] for i, c in enumerate(cl)):
            skipped = lines[b:b + o] + lines[b + o + len(cl):e]
            ok = True
            for x in skipped:
                y = MARKERS_RE.sub("", x)
                if y.strip() != "" or y.strip(" \t") == "":
                    ok = False
            if ok:
                return True
    return False


def check_maps(src, toks, env, ctx=None):
    errs = []
    lines = src_lines(src)
    N = len(lines)
    stack = []      # (token, map)
    prev_end = [0]  # per depth: end of previous sibling
    for i, t in enumerate(toks):
        if t.nesting == -1:
            if stack:
                stack.pop()
                prev_end.pop()
            continue
        m = t.map
        if m is not None:
            if ctx is not None:
                ctx.count("maps." + t.type)
            if not (isinstance(m, list) and len(m) == 2):
                errs.append(("map-shape", f"{t.type} map={m!r}"))
                continue
            b, e = m
            if not (0 <= b < e <= N):
                errs.append(("range", f"{t.type} map={m} N={N}"))
            else:
                if md_blank(lines[b]):
                    errs.append(("start-blank", f"{t.type} map={m} starts on blank line {lines[b]!r}"))
                if t.type in END_NONBLANK and md_blank(lines[e - 1]):
                    errs.append(("end-blank", f"{t.type} map={m} ends on blank line"))
                for (pt, pm) in reversed(stack):
                    if pm is not None:
                        if ctx is not None:
                            ctx.count("nesting_checks")
                        if not (pm[0] <= b and e <= pm[1]):
                            errs.append(("not-inside-container", f"{t.type} map={m} in {pt.type} map={pm}"))
                        break
                if t.type != "inline":
                    if b < prev_end[-1]:
                        errs.append(("sibling-order", f"{t.type} map={m} starts before previous sibling end {prev_end[-1]}"))
                    prev_end[-1] = max(prev_end[-1], e)
                else:
                    cl = t.content.split("\n")
                    cell = bool(stack) and stack[-1][0].type in ("th_open", "td_open")
                    if len(cl) != e - b:
                        if known_trim_shape(cl, lines, b, e):
                            errs.append(("inline-map-vs-unicode-trim", f"inline map={m} but content {t.content!r} has {len(cl)} line(s)"))
                        else:
                            errs.append(("inline-span", f"inline map={m} content-lines={len(cl)} content={t.content!r}"))
                    else:
                        bad = None
                        for k, c in enumerate(cl):
                            if ctx is not None:
                                ctx.count("inline_line_checks")
                            s = lines[b + k]
                            cc = c.lstrip(" \t")
                            if cc in s or (cell and cc in s.replace("\\|", "|")):
                                continue
                            bad = (k, c, s)
                            break
                        if bad:
                            errs.append(("inline-line", f"inline map={m} content line {bad[0]} {bad[1]!r} not in source line {bad[2]!r}"))
        if t.nesting == 1:
            stack.append((t, m))
            prev_end.append(m[0] if m else prev_end[-1])
    covered = [False] * N
    for t in toks:
        if t.level == 0 and t.map and t.nesting >= 0:
            for k in range(max(0, t.map[0]), min(N, t.map[1])):
                covered[k] = True
    defs = []
    refs = env.get("references") or {}
    for lab, r in refs.items():
        defs.append(r)
    defs.extend(env.get("duplicate_refs") or [])
    for r in defs:
        rm = r.get("map")
        if not (isinstance(rm, list) and len(rm) == 2 and 0 <= rm[0] < rm[1] <= N):
            errs.append(("definition-map-range", f"definition {r!r} N={N}"))
            continue
        if ctx is not None:
            ctx.count("definitions_located")
        for k in range(rm[0], rm[1]):
            covered[k] = True
    for k in range(N):
        if ctx is not None:
            ctx.count("coverage_lines")
        if not md_blank(lines[k]) and not covered[k]:
            errs.append(("uncovered-line", f"non-blank line {k} {lines[k]!r} in no top-level map"))
            break
    return errs


def examine(ctx, conf, src):
    md = W.get_md(conf)
    env = {}
    try:
        toks = md.parse(src, env)
    except Exception:
        ctx.count("skipped.exception")
        return [], None
    return check_maps(src, toks, env, ctx), toks


def check_case(ctx, case, minimize=True):
    ctx.count("evaluations")
    ctx.current = case
    conf, src = case["conf"], case["src"]
    errs, toks = examine(ctx, conf, src)
    if toks is None:
        return
    ctx.count("docs")
    if not errs:
        tops = sum(1 for t in toks if t.level == 0 and t.nesting >= 0)
        if tops >= 2 or any(t.nesting == 1 and t.type not in ("paragraph_open", "heading_open") for t in toks):
            ctx.nontrivial(C.conf_id(conf), src)
            ctx.count("nontrivial")
        return
    for key in sorted({k for k, _ in errs}):
        msg = next(m for k, m in errs if k == key)
        c = case
        if minimize and not ctx.replaying:
            def fails(s, key=key):
                return any(k == key for k, _ in examine(fork_ctx(ctx), conf, s)[0])
            c = dict(case, src=minimize_text(src, fails, 3.0))
        ctx.violation(key, f"{msg} | conf={conf} src={c['src']!r}", c)


def replay(ctx, case):
    check_case(ctx, case, minimize=False)


BLOCK_RULES = ["table", "code", "fence", "blockquote", "hr", "list", "reference", "html_block", "heading", "lheading"]


def sample_conf(rng):
    r = rng.random()
    if r < 0.3:
        return rng.choice(W.PANEL)
    preset = rng.choice(["commonmark", "js-default", "gfm-like"])
    conf = {"preset": preset}
    if preset == "gfm-like":
        conf["options"] = {"linkify": False}
    en, dis = [], []
    for name in BLOCK_RULES:
        x = rng.random()
        if x < 0.25:
            dis.append(name)
        elif x < 0.5:
            en.append(name)
    if en:
        conf["enable"] = en
    if dis:
        conf["disable"] = dis
    if rng.random() < 0.2:
        conf.setdefault("options", {})["maxNesting"] = rng.choice([2, 5, 20, 100])
    return conf


def run(ctx):
    rng = ctx.rng
    n = ctx.scale(260000, 8000000)
    for kind, conf, src in W.documents(ctx, n, conf_sampler=sample_conf, lines_confs=[W.PANEL[0], W.PANEL[2], W.PANEL[5]]):
        W.conf_counts(ctx, conf)
        check_case(ctx, {"conf": conf, "src": src})
        if kind != "lines":
            ctx.sample({"conf": conf, "src": src[:200]}, every=1999)
    from vf import limits
    for i, (name, src) in enumerate(limits.docs(big=True)):
        if ctx.mine(i):
            ctx.count("wl.limits")
            check_case(ctx, {"conf": W.PANEL[1] if len(src) > 100000 else rng.choice([W.PANEL[1], W.PANEL[2]]), "src": src}, minimize=False)
    # container / blank-line / EOF combinations: lists ending in blank lines, lazy lines, definitions in containers, tables in quotes
    pre = ["", "> ", "- ", "  ", "1. ", "> - ", "- > ", ">", "   ", "    ", "\t", "> > "]
    body = ["a", "", "b", "[r]: /u", "[r]: /u 't'", "'t'", "|a|b|", "|-|-|", "|c|d|", "```", "~~~", "    c", "# h", "===", "---", "<div>",
            "</div>", "\x0b", "\xa0", " ", "a  ", "* * *", "[r]:", "/u", "- x", "2. y", "> q", "\x0c a", "a \x0b", "|\\||x|", "[r]: /u \"a\\", "b\"", "[r]: /u 'c\\", "d'", "[s]:\\", "-", "1."]
    for _ in range(ctx.scale(120000, 3000000)):
        ls = [rng.choice(pre) + rng.choice(body) for _ in range(rng.randint(1, 7))]
        src = "\n".join(ls) + rng.choice(["", "\n", "\n\n", "\n \n"])
        ctx.count("wl.container_combos")
        check_case(ctx, {"conf": sample_conf(rng), "src": src})


@selftest
def _selftest():
    from markdown_it import MarkdownIt
    md = MarkdownIt()
    src = "> a\n> b\n\n- x\n\n  y\n"
    env = {}
    toks = md.parse(src, env)
    assert check_maps(src, toks, env) == []
    toks[0].map = [0, 9]
    assert any(k == "range" for k, _ in check_maps(src, toks, env))
    toks = md.parse(src, {})
    toks[2].map = [1, 3]
    assert any(k in ("inline-span", "not-inside-container") for k, _ in check_maps(src, toks, {}))
    toks = md.parse("a\n\nb\n", {})
    toks[3].map = [0, 3]
    assert any(k == "sibling-order" for k, _ in check_maps("a\n\nb\n", toks, {}))
    src = "\x0b\nfoo\n"
    toks = md.parse(src, {})
    assert [k for k, _ in check_maps(src, toks, {})] == ["inline-map-vs-unicode-trim"]
