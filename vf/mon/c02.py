"""C02 — token streams are well nested, correctly levelled and tree-constructible."""
from __future__ import annotations

from vf import conf as C
from vf import gen
from vf import workload as W
from vf.selftests import selftest
from vf.util import minimize_text, shape
from vf.worker import fork_ctx

LEVEL = "exploration"
RULE = (
    "cases = (api in {parse, parseInline}, configuration, source) from W-lines/W-soup/W-gram/W-corpus/W-unicode x sampled "
    "configurations incl. stub linkifier; oracle = single-pass stack monitor over the returned Token objects, recursively over "
    "children of inline and image tokens (pairing X_open/X_close with equal tag and markup, level == depth, block flag per layer, "
    "children only on inline/image, no adjacent text, no text_special) + SyntaxTreeNode construction. Non-trivial = stream with "
    ">=1 open/close pair below paragraph level (a container block or an inline pair); distinct by (api, conf id, source)."
    " Also: hand-written preset dicts without rules2, the boundary-value catalogue, the W-path families, and every sequence of <=5 delimiter words for 8 pairs of delimiter kinds (531k inline texts)."
)
ASSUMPTIONS = ["linkify-generated pairs come from a stub linkifier (linkify-it-py unavailable offline)"]


def floors(tier):
    q = tier == "quick"
    return {"streams": 100000 if q else 2000000, "pairs.inline": 20000, "pairs.block": 50000, "image_children_streams": 2000,
            "pairs.linkify": 100, "trees_built": 100000 if q else 2000000, "api.parseInline": 5000, "strike_lone_marker_docs": 20, "wl.path_families": 50, "wl.limits": 300,
            "wl.handwritten_presets": 3000, "wl.delimiter_words": 400000}


def check_stream(tokens, layer, ctx=None, path="top", inline_mode=False):
    """returns list of (key, message).  layer: 'block' | 'inline'"""
    errs = []
    stack = []
    prev = None
    for i, t in enumerate(tokens):
        where = f"{path}[{i}] {t.type}"
        if t.nesting not in (-1, 0, 1):
            errs.append(("bad-nesting-value", f"{where}: nesting={t.nesting!r}"))
            continue
        if layer == "block" and not t.block and not inline_mode:
            errs.append(("block-flag", f"{where}: block-level token has block=False"))
        if layer == "inline" and t.block:
            errs.append(("block-flag", f"{where}: inline token has block=True"))
        if t.type == "text_special":
            errs.append(("text_special-survives", f"{where}: placeholder kind in final stream"))
        if t.type == "text" and prev is not None and prev.type == "text":
            errs.append(("adjacent-text", f"{where}: two adjacent text tokens {prev.content[-20:]!r} {t.content[:20]!r}"))
        if t.nesting == -1:
            if not stack:
                errs.append(("depth-negative", f"{where}: closing token with empty stack"))
            else:
                o = stack.pop()
                if not (o.type.endswith("_open") and t.type.endswith("_close") and o.type[:-5] == t.type[:-6]):
                    errs.append(("pair-kind", f"{where}: closes {o.type}"))
                elif o.tag != t.tag:
                    errs.append(("pair-tag", f"{where}: tag {o.tag!r} vs {t.tag!r}"))
                elif o.markup != t.markup:
                    errs.append(("pair-markup", f"{where}: markup {o.markup!r} vs {t.markup!r}"))
                elif ctx is not None:
                    if layer == "inline":
                        ctx.count("pairs.inline")
                        if o.markup == "linkify":
                            ctx.count("pairs.linkify")
                    else:
                        ctx.count("pairs.block")
        if t.level != len(stack):
            errs.append(("level", f"{where}: level={t.level} depth={len(stack)}"))
        if t.nesting == 1:
            if not t.type.endswith("_open"):
                errs.append(("pair-kind", f"{where}: nesting=1 on a token not named *_open"))
            stack.append(t)
            if ctx is not None:
                ctx.cmax("max_depth_" + layer, len(stack))
        # children
        if t.type == "inline" and layer == "block":
            if t.children is None:
                errs.append(("children", f"{where}: inline token without children list"))
            else:
                errs.extend(check_stream(t.children, "inline", ctx, path + f"[{i}].children"))
        elif t.type == "image" and layer == "inline":
            if t.children is not None:  # an image with an empty description carries None
                if ctx is not None:
                    ctx.count("image_children_streams")
                errs.extend(check_stream(t.children, "inline", ctx, path + f"[{i}].children"))
        elif t.children:
            errs.append(("children", f"{where}: only inline containers and images carry children"))
        prev = t
    if stack:
        errs.append(("depth-nonzero-at-end", f"{path}: unclosed {[o.type for o in stack][-3:]}"))
    return errs


def examine(ctx, api, conf, src, md=None):
    from markdown_it.tree import SyntaxTreeNode
    md = md or W.get_md(conf)
    try:
        toks = getattr(md, api)(src)
    except Exception as e:  # totality is C01's business
        ctx.count("skipped.exception")
        return []
    # the single top-level token of parseInline is created with block=False; the repository's own test
    # (test_parseInline) pins that, so the block flag of that one token is not judged
    errs = check_stream(toks, "block", ctx, inline_mode=(api == "parseInline"))
    if api == "parseInline":
        if len(toks) != 1 or toks[0].type != "inline":
            errs.append(("parseInline-shape", f"expected one inline token, got {[t.type for t in toks]}"))
    try:
        SyntaxTreeNode(toks)
        ctx.count("trees_built")
    except RecursionError as e:
        depth = max((c.level for t in toks for c in (t.children or [])), default=0) + max((t.level for t in toks), default=0)
        if depth >= 250:
            # known finding: the tree is built recursively (about 3 Python frames per nesting level) and emphasis nesting is not
            # limited by maxNesting; classified ONLY for streams nested at least 250 deep
            errs.append(("tree-construction:recursion-depth", f"SyntaxTreeNode raised RecursionError on a well-formed stream nested {depth} deep"))
        else:
            errs.append(("tree-construction", f"SyntaxTreeNode raised RecursionError at nesting depth {depth}"))
    except Exception as e:
        errs.append(("tree-construction", f"SyntaxTreeNode raised {type(e).__name__}: {e}"))
    ctx.count("streams")
    ctx._last_tokens = toks
    return errs


def check_case(ctx, case, minimize=True):
    ctx.count("evaluations")
    ctx.current = case
    api, conf, src = case["api"], case["conf"], case["src"]
    ctx.count("api." + api)
    errs = examine(ctx, api, conf, src)
    if not errs:
        toks = ctx._last_tokens
        nt = any(t.nesting == 1 and t.type != "paragraph_open" for t in toks) or any(
            c.nesting == 1 for t in toks for c in (t.children or []))
        if nt:
            ctx.nontrivial(api, C.conf_id(conf), src)
            ctx.count("nontrivial")
        return
    for key in sorted({k for k, _ in errs}):
        msg = next(m for k, m in errs if k == key)
        c = case
        if minimize and not ctx.replaying:
            def fails(s, key=key):
                return any(k == key for k, _ in examine(fork_ctx(ctx), api, conf, s))
            c = dict(case, src=minimize_text(src, fails))
        ctx.violation(key, f"{msg} | api={api} conf={conf} src={c['src']!r}", c)


def replay(ctx, case):
    check_case(ctx, case, minimize=False)


def run(ctx):
    rng = ctx.rng
    n = ctx.scale(240000, 6000000)
    for kind, conf, src in W.documents(ctx, n, lines_confs=W.PANEL[:3] + [W.PANEL[6]]):
        W.conf_counts(ctx, conf)
        api = "parse" if (kind == "lines" or rng.random() < 0.8) else "parseInline"
        if "~~~~~" in src or "~~~" in src:
            ctx.count("strike_lone_marker_docs")
        case = {"api": api, "conf": conf, "src": src}
        check_case(ctx, case)
        if kind != "lines":
            ctx.sample({"api": api, "conf": conf, "src": src[:160], "shape": shape(ctx._last_tokens)[:300] if hasattr(ctx, "_last_tokens") else ""}, every=1499)
    # W-path at moderate size: structures that only exist in large inputs (limits, cut-offs, saturations)
    from vf import families as F
    fams = sorted(F.FAMILIES)
    for i, fam in enumerate(fams):
        for size, conf in ((2500, W.PANEL[2]), (2500, W.PANEL[1]), (6000, W.PANEL[6])):
            if ctx.mine(i * 3 + size) or not ctx.quick:
                ctx.count("wl.path_families")
                check_case(ctx, {"api": "parse", "conf": conf, "src": F.build(fam, size)}, minimize=False)
    # boundary-value catalogue (every documented or implied size/depth/count limit: just below, at, just above)
    from vf import limits
    for i, (name, src) in enumerate(limits.docs(big=True)):
        if ctx.mine(i):
            for conf in (W.PANEL[2], W.PANEL[1], W.PANEL[6]):
                if len(src) > 100000 and conf is not W.PANEL[1]:
                    continue
                ctx.count("wl.limits")
                check_case(ctx, {"api": "parse", "conf": conf, "src": src}, minimize=False)
    # hand-written preset dicts (explicit rule lists, no 'rules2'): the post-processing chain must still be complete
    for k in range(ctx.scale(6000, 150000)):
        conf = {"preset": rng.choice(["commonmark", "js-default", "gfm-like", "default"]), "handwritten": True}
        if conf["preset"] == "gfm-like":
            conf["options"] = {"linkify": False}
        if rng.random() < 0.4:
            conf["enable"] = rng.sample(["strikethrough", "table", "emphasis", "link"], 2)
        ctx.count("wl.handwritten_presets")
        check_case(ctx, {"api": rng.choice(["parse", "parseInline"]), "conf": conf, "src": gen.strip_surrogates(rng.choice([gen.gram(rng, nblocks=2), gen.soup(rng, 4), "*a **b** c* ~~d *e* f~~ [g *h*](u) ![i _j_](s)\n"]))})
    # every sequence of up to 5 words carrying two kinds of delimiter runs (all crossings, nestings and strays)
    pairs = gen.DELIM_KIND_PAIRS
    for pi, kinds in enumerate(pairs):
        deep = True
        for di, d in enumerate(gen.delimiter_docs(kinds, 5 if deep else 4)):
            if not ctx.mine(di + pi):
                continue
            ctx.count("wl.delimiter_words")
            check_case(ctx, {"api": "parseInline", "conf": W.PANEL[2] if "~~" in kinds else W.PANEL[di % 2], "src": d}, minimize=False)
    # dedicated inline nests: images in links in images, emphasis x strikethrough runs, linkify
    confs = [W.PANEL[2], W.PANEL[6], W.PANEL[1], {"preset": "gfm-like", "stub_linkify": True, "options": {"typographer": True}}]
    atoms = ["![", "[", "](u)", "](u \"t\")", "*", "**", "_", "~~", "~~~~~", "~", "~~~", "~~a~~~", "~~~]", "***", "__", "`", "a", " ", "http://x.y/z", "www.ex.com", "a@b.co",
             "<http://q.r>", "\\*", "&amp;", "<b>", "</a>", "<a href=x>", "!", "]", "[r]", "\n"]
    for _ in range(ctx.scale(60000, 1500000)):
        src = "".join(rng.choice(atoms) for _ in range(rng.randint(2, 14)))
        if rng.random() < 0.3:
            src = "[r]: /u\n\n" + src
        check_case(ctx, {"api": rng.choice(["parse", "parseInline"]), "conf": rng.choice(confs), "src": src})
        ctx.count("wl.inline_nests")


# ---------------------------------------------------------------------------------------------------
@selftest
def _selftest():
    from markdown_it.token import Token

    def T(type, nesting, level, block=True, **kw):
        t = Token(type, kw.pop("tag", ""), nesting, **kw)
        t.level, t.block = level, block
        return t
    good = [T("paragraph_open", 1, 0, tag="p"), T("inline", 0, 1, children=[T("text", 0, 0, False)]), T("paragraph_close", -1, 0, tag="p")]
    assert check_stream(good, "block") == []
    bad_level = [T("paragraph_open", 1, 0, tag="p"), T("inline", 0, 0, children=[]), T("paragraph_close", -1, 0, tag="p")]
    assert any(k == "level" for k, _ in check_stream(bad_level, "block"))
    bad_pair = [T("paragraph_open", 1, 0, tag="p"), T("heading_close", -1, 0, tag="p")]
    assert any(k == "pair-kind" for k, _ in check_stream(bad_pair, "block"))
    unclosed = [T("paragraph_open", 1, 0, tag="p")]
    assert any(k == "depth-nonzero-at-end" for k, _ in check_stream(unclosed, "block"))
    adj = [T("inline", 0, 0, children=[T("text", 0, 0, False), T("text", 0, 0, False)])]
    assert any(k == "adjacent-text" for k, _ in check_stream(adj, "block"))
    special = [T("inline", 0, 0, children=[T("text_special", 0, 0, False)])]
    assert any(k == "text_special-survives" for k, _ in check_stream(special, "block"))
