"""C09 — backslash escapes / character references make any text literal in every inline context."""
from __future__ import annotations

import string

from vf import gen
from vf import workload as W
from vf.selftests import selftest

LEVEL = "exploration"
RULE = (
    "cases = (context, form, t, preset): t single-line with t == t.strip() (title contexts: blanks at the ends allowed) over printable "
    "ASCII (punctuation-heavy), inner blanks/tabs, non-ASCII letters/punctuation/blanks/format characters and (backslash form) "
    "controls and NUL; form bs = backslash before every ASCII punctuation character, form ref = every punctuation character (and "
    "randomly others) as decimal/hex/named character reference; 16 contexts (paragraph, ATX heading, em and strong padded by letters, em/strong with the delimiters touching t, link text, image "
    "alt, link title in \"\", '', (), reference-definition title, table cell, list item, block quote); commonmark and js-default with "
    "table+strikethrough, typographer off. Oracle: render(ctx(esc(t))) == frame(escapeHtml(t)) byte for byte. Non-trivial = t "
    "with >=1 ASCII punctuation character; distinct by (context, form, t, preset)."
    " Table rows are also written without the closing pipe (t last on the line)."
)
ASSUMPTIONS = ["escapeHtml(t) replaces exactly & < > \"; NUL is expected as U+FFFD",
               "table cell written '| t |' (a pipe glued to a trailing backslash is row splitting, not inline content)"]
PUNCT = string.punctuation
NAMED = {"&": ["&amp;", "&AMP;"], "<": ["&lt;", "&LT;"], ">": ["&gt;"], '"': ["&quot;", "&QUOT;"], "*": ["&ast;", "&midast;"], "_": ["&lowbar;", "&UnderBar;"],
         "[": ["&lbrack;", "&lsqb;"], "]": ["&rbrack;", "&rsqb;"], "(": ["&lpar;"], ")": ["&rpar;"], "`": ["&grave;", "&DiacriticalGrave;"],
         "\\": ["&bsol;"], "#": ["&num;"], "|": ["&vert;", "&verbar;", "&VerticalLine;"], "!": ["&excl;"], "~": [], "'": ["&apos;"], "-": ["&hyphen;", "&dash;"][:0],
         "+": ["&plus;"], "=": ["&equals;"], ":": ["&colon;"], ";": ["&semi;"], ",": ["&comma;"], ".": ["&period;"], "/": ["&sol;"], "?": ["&quest;"],
         "@": ["&commat;"], "^": ["&Hat;"], "{": ["&lbrace;", "&lcub;"], "}": ["&rbrace;", "&rcub;"], "$": ["&dollar;"], "%": ["&percnt;"],
         "\xa0": ["&nbsp;"], "é": ["&eacute;"], "«": ["&laquo;"], "—": ["&mdash;"], "ß": ["&szlig;"], "\t": ["&Tab;"]}

CTX = {
    "para": ("{}", "<p>{}</p>\n"),
    "head": ("# {}", "<h1>{}</h1>\n"),
    "em": ("*a {} a*", "<p><em>a {} a</em></p>\n"),
    "strong": ("__a {} a__", "<p><strong>a {} a</strong></p>\n"),
    # unpadded: the delimiters touch t itself.  A paragraph consisting only of *esc(t)* is emphasis whenever t does not begin or
    # end with Unicode whitespace (t == t.strip() guarantees that): at the start/end of the line both flanking conditions reduce to it
    "em_tight": ("*{}*", "<p><em>{}</em></p>\n"),
    "strong_tight": ("**{}**", "<p><strong>{}</strong></p>\n"),
    "em_tight_us": ("_{}_", "<p><em>{}</em></p>\n"),
    "linktext": ("[{}](u)", '<p><a href="u">{}</a></p>\n'),
    "alt": ("![{}](u)", '<p><img src="u" alt="{}" /></p>\n'),
    "title_dq": ('[x](u "{}")', '<p><a href="u" title="{}">x</a></p>\n'),
    "title_sq": ("[x](u '{}')", '<p><a href="u" title="{}">x</a></p>\n'),
    "title_par": ("[x](u ({}))", '<p><a href="u" title="{}">x</a></p>\n'),
    "title_ref": ('[r]: /u "{}"\n\n[x][r]', '<p><a href="/u" title="{}">x</a></p>\n'),
    "cell": ("| {} |\n|-|\n", "<table>\n<thead>\n<tr>\n<th>{}</th>\n</tr>\n</thead>\n</table>\n"),
    # rows written without the optional closing pipe: t is the last thing on the line
    "cell_open": ("| a | {}\n|-|-\n", "<table>\n<thead>\n<tr>\n<th>a</th>\n<th>{}</th>\n</tr>\n</thead>\n</table>\n"),
    "cell_body_open": ("| h | k |\n|-|-|\n| b | {}\n", "<table>\n<thead>\n<tr>\n<th>h</th>\n<th>k</th>\n</tr>\n</thead>\n<tbody>\n<tr>\n<td>b</td>\n<td>{}</td>\n</tr>\n</tbody>\n</table>\n"),
    "li": ("- {}", "<ul>\n<li>{}</li>\n</ul>\n"),
    "bq": ("> {}", "<blockquote>\n<p>{}</p>\n</blockquote>\n"),
}
TITLE_CTX = ("title_dq", "title_sq", "title_par", "title_ref")
CONFS = {
    "cm": {"preset": "commonmark", "enable": ["table", "strikethrough"]},
    "js": {"preset": "js-default", "options": {"xhtmlOut": True}},
}
ALPH = (list("abcXYZ09") + list(PUNCT) * 2 + [" ", " ", "\t", "é", "的", "\xa0", " ", "«", "—", "​", "­", "ß", "‘", "…", "¡", "\U0001f600", "́",
                                              "\x01", "\x7f", "\x1b", "\x0b", "\x0c", "\x00", "\x85", " ", "‮", "﻿", "\U000e0041"])


def floors(tier):
    f = {"compared": 200000 if tier == "quick" else 5000000, "named_references_enumerated": 1500, "long_texts": 400, "numeric_references_swept": 800}
    for c in CTX:
        for form in ("bs", "ref"):
            f[f"ctx.{c}.{form}"] = 3000
            f[f"allpunct.{c}.{form}"] = 1
    return f


def valid_ref_code(c):
    if c <= 8 or c == 0x0B or 0x0E <= c <= 0x1F or 0x7F <= c <= 0x9F:
        return False
    if 0xD800 <= c <= 0xDFFF or 0xFDD0 <= c <= 0xFDEF or (c & 0xFFFF) in (0xFFFE, 0xFFFF) or c > 0x10FFFF:
        return False
    return c not in (10, 13)


def esc_html(t):
    return t.replace("&", "&amp;").replace("<", "&lt;").replace(">", "&gt;").replace('"', "&quot;")


def esc_bs(t):
    return "".join("\\" + c if c in PUNCT else c for c in t)


def esc_ref(rng, t):
    out = []
    for c in t:
        if c in PUNCT or rng.random() < 0.3 or c in "\t":
            forms = ["&#%d;" % ord(c), "&#x%X;" % ord(c), "&#x%x;" % ord(c), "&#X%x;" % ord(c), "&#%07d;" % ord(c)]
            forms += NAMED.get(c, [])
            out.append(rng.choice(forms))
        else:
            out.append(c)
    return "".join(out)


def rand_t(rng, form, title):
    for _ in range(100):
        n = rng.choice([1, 1, 2, 3, 4, 6, 8, 12])
        t = "".join(rng.choice(ALPH) for _ in range(n))
        if form == "ref":
            t = "".join(c for c in t if valid_ref_code(ord(c)))
        if title and rng.random() < 0.4:
            t = rng.choice(["", " ", "  ", "\t"]) + t.strip() + rng.choice(["", " ", "  ", "\t"])
            if t.strip(" \t") and t.strip(" \t") == t.strip():
                if form == "bs" or "\t" not in t:
                    return t
            continue
        if t and t.strip() == t:
            return t
    return "a"


def one(ctx, cname, form, t, e, cn):
    case = {"context": cname, "form": form, "t": t, "escaped": e, "conf": cn}
    ctx.current = case
    ctx.count("evaluations")
    tm, frame = CTX[cname]
    src = tm.format(e)
    want = frame.format(esc_html(t.replace("\x00", "�")))
    md = W.get_md(CONFS[cn])
    try:
        got = md.render(src)
    except Exception as ex:
        ctx.count("skipped.exception")
        return
    ctx.count("compared")
    ctx.count(f"ctx.{cname}.{form}")
    if any(c in PUNCT for c in t):
        ctx.nontrivial(cname, form, t, cn)
    if got != want:
        ctx.violation(f"not-literal:{cname}:{form}", f"t={t!r} src={src!r} got={got!r} want={want!r} ({cn})", case)


def replay(ctx, case):
    one(ctx, case["context"], case["form"], case["t"], case["escaped"], case["conf"])


def run(ctx):
    rng = ctx.rng
    seen = {(c, f): set() for c in CTX for f in ("bs", "ref")}
    n = ctx.scale(80000, 2000000)
    for k in range(n):
        form = "bs" if k % 2 == 0 else "ref"
        for cname in CTX:
            title = cname in TITLE_CTX
            if k < 64 and k // 2 < len(PUNCT):
                # make sure every punctuation character is exercised alone in every context
                t = PUNCT[k // 2]
            elif k < 200:
                t = rng.choice(["a", "é"]) + "".join(rng.sample(PUNCT, 4)) + rng.choice(["b", "的"])
            else:
                t = rand_t(rng, form, title)
            e = esc_bs(t) if form == "bs" else esc_ref(rng, t)
            for cn in CONFS:
                one(ctx, cname, form, t, e, cn)
            seen[(cname, form)].update(c for c in t if c in PUNCT)
        if k % 997 == 0:
            ctx.sample({"form": form, "t": t, "escaped": e})
    for (c, f), s in seen.items():
        if len(s) == len(PUNCT):
            ctx.count(f"allpunct.{c}.{f}")
    # every named character reference HTML5 knows (those that denote one admissible character), in three contexts
    import html.entities
    names = sorted(n for n, v in html.entities.html5.items() if n.endswith(";") and len(v) == 1 and valid_ref_code(ord(v)) and not v.isspace())
    for i, nme in enumerate(names):
        if not ctx.mine(i):
            continue
        t = html.entities.html5[nme]
        for cname in ("para", "linktext", "alt", "title_dq", "cell"):
            one(ctx, cname, "ref", t, "&" + nme, "cm")
        ctx.count("named_references_enumerated")
    ctx.info["named_references_total"] = len(names)
    # numeric references (decimal, &#x.., &#X..) for the code points at the edges of the character classes and of every plane
    cps = set(gen.boundary_codepoints())
    for plane in range(0, 17):
        for off in (0, 1, 0x7F, 0x80, 0xFF, 0xD7FF, 0xD800, 0xDBFF, 0xDC00, 0xDFFF, 0xE000, 0xFDD0, 0xFDEF, 0xFFFD, 0xFFFE, 0xFFFF):
            cps.add(plane * 0x10000 + off)
    cps = sorted(c for c in cps if c <= 0x10FFFF and not 0xD800 <= c <= 0xDFFF and valid_ref_code(c) and chr(c).strip() == chr(c) and chr(c) != "")
    for i, c in enumerate(cps):
        if not ctx.mine(i):
            continue
        for spelled in (f"&#{c};", f"&#x{c:x};", f"&#X{c:X};", f"&#{c:07d};"):
            for cname in ("para", "head", "linktext", "alt", "title_dq", "title_ref", "cell", "em_tight"):
                if cname == "em_tight" and not chr(c).isalnum():
                    continue   # (flanking depends on the character's class; letters and digits are always safe)
                one(ctx, cname, "ref", chr(c), spelled, "cm" if i % 2 else "js")
        ctx.count("numeric_references_swept")
    # long texts: escaping multiplies the source length (a 200-character text is >1000 characters when written as references)
    for k in range(ctx.scale(600, 20000)):
        n = rng.choice([170, 200, 250, 400, 999, 1000, 1100])
        t = "".join(rng.choice("abcdeXYZ *_[]()<>&\"'`~!#") for _ in range(n)).strip() or "a"
        form = rng.choice(["bs", "ref", "ref"])
        e = esc_bs(t) if form == "bs" else esc_ref(rng, t)
        for cname in ("para", "linktext", "alt", "title_dq", "head", "em_tight"):
            one(ctx, cname, form, t, e, rng.choice(list(CONFS)))
        ctx.count("long_texts")
    # corpus-derived texts: single lines taken from the spec, escaped wholesale
    lines = []
    for _, t in gen.corpus()[:700]:
        for l in t.split("\n"):
            l = l.strip()
            if 0 < len(l) <= 60 and "\x00" not in l:
                lines.append(l)
    for k in range(ctx.scale(8000, 200000)):
        t = rng.choice(lines)
        form = rng.choice(["bs", "ref"])
        if form == "ref" and not all(valid_ref_code(ord(c)) for c in t):
            continue
        e = esc_bs(t) if form == "bs" else esc_ref(rng, t)
        cname = rng.choice(list(CTX))
        one(ctx, cname, form, t, e, rng.choice(list(CONFS)))
        ctx.count("wl.corpus_lines")


@selftest
def _selftest():
    assert esc_bs("a*b") == "a\\*b"
    assert esc_html('<&">') == "&lt;&amp;&quot;&gt;"
    assert not valid_ref_code(0) and not valid_ref_code(0x80) and valid_ref_code(0x41) and not valid_ref_code(0xFFFE)
