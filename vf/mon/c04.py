"""C04 — html off => output is renderer-made, well-formed and fully escaped."""
from __future__ import annotations

import collections

from vf import conf as C
from vf import gen
from vf import workload as W
from vf.htmlscan import scan
from vf.selftests import selftest
from vf.util import minimize_text, walk

LEVEL = "exploration"
RULE = (
    "cases = (configuration with html=False: preset x rule subset x typographer/breaks/xhtmlOut/langPrefix/quotes/"
    "inline_definitions/store_labels values incl. hostile langPrefix and quote strings, optional stub linkifier; source) from "
    "W-soup/W-gram/W-corpus(xss.md, html fixtures)/W-unicode, per-process instance histories (another instance of the preset had html switched on via constructor/configure/set/assignment; a fresh html-off preset instance must still escape) plus metacharacter-injection templates for every render path; "
    "oracle = strict total lexer accepting only the renderer's own tag/attribute vocabulary with &<>\" escaped and stack discipline. "
    "Non-trivial = output containing >=1 attribute or >=1 escaped metacharacter; distinct by (conf id, source)."
    " Also: the boundary-value catalogue, the W-path families and every sequence of <=5 delimiter words for 8 pairs of delimiter kinds (tags must never cross)."
)
ASSUMPTIONS = ["default HTML renderer, no highlight callback, options.html false (as the property states)",
               "scanner vocabulary: p h1-h6 blockquote ul ol li pre code em strong s a img br hr table thead tbody tr th td; "
               "attributes href title src alt start class style"]

PATHS = ["text", "code_inline", "code_block", "fence.content", "fence.info", "link.href", "link.title", "image.src", "image.alt", "image.title"]


def floors(tier):
    f = {"renders": 100000 if tier == "quick" else 2000000, "input_has_meta": 50000, "tag.a": 5000, "tag.img": 5000, "tag.code": 5000,
         "attr.a.title": 1000, "attr.img.alt": 5000, "attr.code.class": 1000, "attr.ol.start": 500, "attr.th.style": 200,
         "escaped_in_text": 20000, "wl.delimiter_words": 400000, "history.fresh_instances": 15, "history.escaped_probes": 15}
    for p in PATHS:
        f["meta_via." + p] = 300
    return f


def path_counts(ctx, toks):
    def has(s):
        return s is not None and any(ch in s for ch in '<>&"')
    for t in walk(toks):
        ty = t.type
        if ty in ("text", "code_inline", "code_block"):
            if has(t.content):
                ctx.count("meta_via." + ty)
        elif ty == "fence":
            if has(t.content):
                ctx.count("meta_via.fence.content")
            if has(t.info):
                ctx.count("meta_via.fence.info")
        elif ty == "link_open":
            if has(str(t.attrs.get("href", ""))):
                ctx.count("meta_via.link.href")
            if has(str(t.attrs.get("title", ""))):
                ctx.count("meta_via.link.title")
        elif ty == "image":
            if has(str(t.attrs.get("src", ""))):
                ctx.count("meta_via.image.src")
            if has(str(t.attrs.get("title", ""))):
                ctx.count("meta_via.image.title")
            if has(t.content):
                ctx.count("meta_via.image.alt")


def examine(ctx, conf, src, stats=None, count_paths=False):
    md = W.get_md(conf)
    if md.options.get("html"):
        raise AssertionError("C04 configuration must have html off")
    env = {}
    try:
        toks = md.parse(src, env)
        if count_paths:
            path_counts(ctx, toks)
        html = md.renderer.render(toks, md.options, env)
    except Exception:
        ctx.count("skipped.exception")
        return None, None
    return scan(html, stats), html


def check_case(ctx, case, minimize=True):
    ctx.count("evaluations")
    ctx.current = case
    conf, src = case["conf"], case["src"]
    stats = collections.Counter()
    err, html = examine(ctx, conf, src, stats, count_paths=True)
    if html is None:
        return
    ctx.count("renders")
    if any(ch in src for ch in '<&"'):
        ctx.count("input_has_meta")
    if err is None:
        for k, v in stats.items():
            ctx.count(k, v)
        if any(k.startswith("attr.") or k.startswith("escaped") for k in stats):
            ctx.nontrivial(C.conf_id(conf), src)
            ctx.count("nontrivial")
        return
    key, msg = err
    c = case
    if minimize and not ctx.replaying:
        def fails(s):
            e, _ = examine(ctx, conf, s)
            return e is not None and e[0] == key
        c = dict(case, src=minimize_text(src, fails))
        _, html = examine(ctx, conf, c["src"])
    ctx.violation(key, f"{msg} | conf={conf} src={c['src']!r} html={html[:300]!r}", c)


HISTORY_PROBE = "<script>alert(1)</script>\n\n<div onclick=x>\n\na <b>c</b> <!-- d --> <?p?>\n\n```\"><i>\n<u>\n```\n"


def history_case(ctx, case):
    """a preset that documents html off gives html off, whatever other instances this process built before (same preset with
    html on through the constructor, configure(), set() or an assignment to options); the probe's raw HTML must come out escaped"""
    from markdown_it import MarkdownIt
    ctx.count("evaluations")
    ctx.current = case
    preset, route = case["preset"], case["route"]
    if route == "ctor":
        other = MarkdownIt(preset, {"html": True})
    elif route == "ctor_more":
        other = MarkdownIt(preset, {"html": True, "breaks": True, "xhtmlOut": False, "langPrefix": "x-"})
    elif route == "configure":
        other = MarkdownIt("commonmark")
        other.configure(preset, {"html": True})
    elif route == "set":
        other = MarkdownIt(preset)
        other.set({**dict(other.options), "html": True})   # set() replaces the options wholesale
    else:
        other = MarkdownIt(preset)
        other.options["html"] = True
    other.render(HISTORY_PROBE)
    md = MarkdownIt(preset)
    stats = collections.Counter()
    html = md.render(HISTORY_PROBE)
    ctx.count("history.fresh_instances")
    err = scan(html, stats)
    if err is None and ("<script" in html or "<div" in html or "<b>" in html or "<i>" in html):
        err = ("raw-html-after-history", "raw HTML of the input appears in the output")
    if err is not None:
        ctx.violation("html-off-preset-after-history:" + err[0], f"MarkdownIt({preset!r}) built after another instance had html switched on via {route}: {err[1]} | html={html[:200]!r}", case)
    elif stats:
        ctx.count("history.escaped_probes")


def replay(ctx, case):
    if case.get("kind") == "history":
        history_case(ctx, case)
    else:
        check_case(ctx, case, minimize=False)


PAYLOADS = ['<script>alert(1)</script>', '"><img src=x onerror=1>', "&lt;&#60;&#x3c;\\<", "a\" onclick=\"x", "&quot;&#34;", "<!-- x -->", "</code></pre><b>",
            "&amp;amp;", "&", "<", ">", '"', "'", "\\\"", "&#0;", "<a href=\"x\">", "\x00<", "]]>", "<?x?>", "`<`", "*<*", "&NotAnEntity;", "&#x110000;",
            "\xa0<\xa0", "<\n>", "javascript:alert('\"')", "<<>>\"\"&&"]


def inject(rng):
    p = rng.choice(PAYLOADS)
    q = rng.choice(PAYLOADS)
    tmpl = rng.choice([
        "```{p}\n{q}\n```\n", "~~~ lang {p}\n{q}\n~~~\n", "[t](/u \"{p}\")\n", "[t](/u '{p}')\n", "[t](/u ({p}))\n", "[t](<{p}>)\n", "[{p}]({q})\n",
        "![{p}](/s \"{q}\")\n", "![a ![{p}](u) b](/{q})\n", "`{p}`\n", "``{p}``\n", "    {p}\n    {q}\n", "| {p} | b |\n|:-:|--:|\n| c | {q} |\n",
        "1234{n}. {p}\n", "<http://a.b/{p}>\n", "<{p}@b.c>\n", "# {p}\n", "{p}\n===\n", "> {p}\n", "- {p}\n", "[r]: /u \"{p}\"\n\n[{q}][r] ![x][r]\n",
        "[{p}]: /u\n\n[{p}]\n", "*{p}* **{q}** ~~{p}~~\n", "{p}  \n{q}\\\n{p}\n", "\"{p}\" '{q}' -- ... (c)\n", "http://x.y/{p} www.a.bc/{q} m@n.op\n",
        "<div>{p}</div>\n", "<{p}>\n", "&{p};\n", "\\{p}\n",
    ])
    return tmpl.replace("{p}", p).replace("{q}", q).replace("{n}", str(rng.randint(0, 99999)))


def run(ctx):
    rng = ctx.rng
    xss = [t for n, t in gen.corpus() if n.startswith(("xss.md", "commonmark_spec.md", "linkify.md", "proto.md", "fatal.md"))]
    n = ctx.scale(260000, 8000000)

    def doc_gen(r):
        x = r.random()
        if x < 0.3:
            return "inject", inject(r) + (inject(r) if r.random() < 0.4 else "")
        if x < 0.5:
            return "soup", gen.soup(r)
        if x < 0.7:
            return "gram", gen.gram(r)
        if x < 0.8 and xss:
            t = r.choice(xss)
            return "xss_corpus", t if r.random() < 0.5 else t[: r.randint(0, len(t))]
        if x < 0.93:
            return "corpus", gen.corpus_mutation(r)
        return "unicode", gen.uni_doc(r)

    def sampler(r):
        return C.sample(r, html=False)

    for preset in ("js-default", "zero", "default"):
        for route in ("ctor", "ctor_more", "configure", "set", "assign"):
            history_case(ctx, {"kind": "history", "preset": preset, "route": route})   # in every shard: the history is per process

    from vf import families as F
    for i, fam in enumerate(sorted(F.FAMILIES)):
        for size, conf in ((2500, {"preset": "js-default"}), (6000, {"preset": "commonmark", "options": {"html": False}, "enable": ["table", "strikethrough"]})):
            if ctx.mine(i * 2 + size) or not ctx.quick:
                ctx.count("wl.path_families")
                check_case(ctx, {"conf": conf, "src": F.build(fam, size)}, minimize=False)
    # every sequence of up to 5 words carrying two kinds of delimiter runs: tags must never cross in the output
    for pi, kinds in enumerate(gen.DELIM_KIND_PAIRS):
        deep = True
        for di, d in enumerate(gen.delimiter_docs(kinds, 5 if deep else 4)):
            if not ctx.mine(di + pi):
                continue
            ctx.count("wl.delimiter_words")
            check_case(ctx, {"conf": {"preset": "js-default"} if di % 2 else {"preset": "commonmark", "options": {"html": False}, "enable": ["strikethrough"]}, "src": d + "\n"}, minimize=False)
    from vf import limits
    for i, (name, src) in enumerate(limits.docs(big=True)):
        if ctx.mine(i):
            ctx.count("wl.limits")
            check_case(ctx, {"conf": {"preset": "js-default"}, "src": src}, minimize=False)
            if len(src) < 100000:
                check_case(ctx, {"conf": {"preset": "commonmark", "options": {"html": False}, "enable": ["table", "strikethrough"]}, "src": src}, minimize=False)
    for kind, conf, src in W.documents(ctx, n, conf_sampler=sampler, doc_gen=doc_gen,
                                       lines_confs=[{"preset": "js-default"}, {"preset": "commonmark", "options": {"html": False}, "enable": ["table"]}]):
        W.conf_counts(ctx, conf)
        check_case(ctx, {"conf": conf, "src": src})
        if kind == "inject":
            ctx.sample({"conf": conf, "src": src[:200]}, every=2999)


@selftest
def _selftest():
    assert scan('<p>a &amp; b <a href="x" title="&quot;">t</a><br />\n<img src="s" alt="" /></p>\n') is None
    assert scan('<table>\n<thead>\n<tr>\n<th style="text-align:center">a</th>\n</tr>\n</thead>\n</table>\n') is None
    for bad, key in [("<p><script>x</script></p>", "foreign-tag"), ('<p><a onclick="x">t</a></p>', "foreign-attr"), ("<p>a & b</p>", "lex"),
                     ("<p>a &copy; b</p>", "lex"), ("<p>x", "unclosed"), ("<p><em>x</p></em>", "nesting"), ("<>", "lex"), ("< />", "lex"),
                     ('<p>"</p>', "lex"), ('<a href="a&b">x</a>', "raw-amp-in-attr"), ("<p>a > b</p>", "lex"), ("<p", "lex"),
                     ('<td style="color:red">x</td>', "style-value")]:
        r = scan(bad)
        assert r is not None and r[0] == key, (bad, r)
