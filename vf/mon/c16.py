"""C16 — reference definitions act through env: seeding env equals prepending them."""
from __future__ import annotations

import re

from vf import gen
from vf import workload as W
from vf.selftests import selftest
from vf.util import first_diff, stream

LEVEL = "exploration"
RULE = (
    "cases: (1) seeding: (D, R, env history in {seeded, seeded twice, seeded then other document first}) with R a block of 1-4 "
    "definitions (admitted only if parse(R) yields no tokens) over labels incl. case variants, ß/ẞ/SS, ǅ/ǆ, Σ/σ/ς, İ/ı, K/K, "
    "inner blank runs incl. tab/LF/NBSP, duplicates of labels defined or used in D; oracle render(D, env seeded by parsing R) == "
    "render(R + blank line + D). (2) exactly-once accounting with inline_definitions on: the multiset of (label id, href, title, "
    "map) over definition tokens == references U duplicate_refs, first occurrence in references, and every definition the "
    "generator wrote appears with exactly its own lines. (3) label equivalence: a use [L2] resolves against [L1]: iff "
    "casefold+blank-collapse of L1 and L2 are equal. (4) reference vs inline: for (text, dest, title) from grammars in which both "
    "spellings are well formed, both or neither yield a link/image, and if both then identical tokens, attrs and children. "
    "Non-trivial = case where >=1 use resolves through a definition; distinct by the generated texts."
    " (5) a definition resolves identically directly after each of 18 closed constructs; definition content fits the lines of its map; (4) also with overridden link hooks, code disabled, destination on its own line."
)
ASSUMPTIONS = ["label equivalence oracle = str.casefold() after ' '.join(label.split())", "commonmark preset (+ inline_definitions for the accounting part)"]

LABELS = ["r", "R", "Foo Bar", "foo  bar", "FOO\tbar", "foo\nbar", "ß", "SS", "ss", "ẞ", "É", "é", "ǅ", "ǆ", "Ǆ", "Σ", "ς", "σ", "İ", "i̇", "ı", "I", "i", "K", "k", "K",
          "Å", "å", "Å", "\xa0x", "x\xa0", "x\ty", "x y", "x  y", "x\xa0y", "x\u2003y", "x\x0cy", "x \xa0 y", "x\x0b\ty", "x\u2028y", "a\\]b", "a\\]B", "x*y*", "X*Y*", "ﬁ", "fi", "FI", "straße", "STRASSE", "ΐ", "ΐ", "ŉ", "ʼn", "θ", "ϑ", "ϴ",
          "long label with many words", "Long  Label with\tMany words",
          "foo\\]\nbar", "FOO\\] BAR", "a\\]\nb\nc", "x\\[\ny", "w1 w2 w3 w4 w5 w6 w7 w8 w9 w10 w11 w12", "W1  w2 w3\tw4 w5 w6 w7 w8 w9  w10\tw11\nw12", "w1 w2 w3 w4 w5 w6 w7 w8 w9 w10 w11\xa0w12", "1", "١", "!", "\\!"]
TITLES = ["", ' "t"', " 't'", " (t)", ' "a \\" b"', ' "&amp; *x*"', ' "multi\nline"', " 'it\\'s'", ' "é"', ' ""', " '\\''", ' "a\\\\"', ' "(x)"', " (a\\)b)", "\n'next line'",
          ' "multi\n    # line"', " 'a\n     > b'", ' (x\n    - y)', "\n    'next line'", '\n\t"tab title"', ' "a\n    ```\n    b"', ' "a\n      <div>"', " 'a\n    1. b'",
          ' "one\n[x]: two"', " 'a\n[b]: /c d'", " (p\n[q]:\nr)", ' "a\u2028b"', ' "a\x0cb\x85c"', " 'x\x1cy\x0bz'", " (u\u2029v)", ' "l1\u2028\u2028l2"',
          ' "tab\there"', " (&quot;)", ' "<b>"', ' "one\\\ntwo"', " 'a\\\nb\\\nc'", ' "x\\\\"', " (p\\\nq)"]
DESTS = ["/u", "http://x.y/z?a=b&c", "<a b>", "<>", "a(b)c", "a\\(b", "&amp;x", "%20x", "é", "x#f", "a\\*b", "<a\\>b>", "&#35;", "javascript:x", "a_b_c", "a*b*", "x\\\\y",
         "\n[b]:/v", "/forbidden/x", "http://x.y/forbidden", "JavaScript:alert(1)", "/rel/path?q=1#f",
         "<(>", "((a))", "a\\)", "/ü/%zz", "<a\tb>", "data:image/png;base64,x", "#", "//h/p", "\\<a>", "&copy;", "<\\<>"]
TEXTS = ["t", "*e*", "`c`", "a b", "x\\]y", "![i](s)", "é", "a\nb", "&amp;", "[in]", "**s** _e_", "<b>h</b>", "a\\\\", "`]`", "x [y] z", "", "\\[", "<http://a.b>", "  p  ", "a  \nb"]


def floors(tier):
    return dict(_floors(tier), **{"triples.conf.hooks": 10000, "triples.conf.nocode": 5000, "triples.hook_changed_result": 2000, "acct.own_lines_checked": 50000, "acct.backslash_eol": 3000, "context.cases": 30000, "context.resolved_alone": 20000})


def _floors(tier):
    q = tier == "quick"
    return {"seed.cases": 20000 if q else 600000, "seed.resolved_through_R": 8000, "seed.history.twice": 3000, "seed.history.other_first": 3000,
            "acct.docs": 15000, "acct.definitions": 30000, "acct.duplicates": 5000, "acct.written_defs_located": 20000, "label.pairs": 40000,
            "label.pairs_equal": 5000, "label.pairs_unequal": 20000, "triples": 60000, "triples.both_link": 20000, "triples.neither": 1000, "fidelity.docs": 20000, "fidelity.resolved_references": 30000,
            "fidelity.defs_before_titlelike_text": 3000}


def onorm(label):
    return " ".join(label.split()).casefold()


MD = {"preset": "commonmark"}
MDI = {"preset": "commonmark", "options": {"inline_definitions": True}}


def viol(ctx, key, msg, case):
    ctx.violation(key, f"{msg} | case={ {k: v for k, v in case.items()} }"[:1900], case)


# ---- (1) seeding ------------------------------------------------------------------------------------------------
def seed_case(ctx, case):
    ctx.count("evaluations")
    ctx.current = case
    md = W.get_md(MD)
    R, D, hist = case["R"], case["D"], case["hist"]
    env = {}
    try:
        if md.parse(R, env):
            # R is built from a grammar of well-formed definitions only: anything left over means one was not recognised as a whole
            viol(ctx, "wellformed-definition-not-recognised", f"definition block {R!r} leaves tokens {[t.type + ':' + t.content[:30] for t in md.parse(R, {})][:6]}", case)
            return
        if hist == "twice":
            md.parse(R, env)
        elif hist == "other_first":
            md.render("unrelated [r] *doc*\n", env)
        h1 = md.render(D, env)
        e2 = {}
        h2 = md.render(R + "\n" + D, e2)
    except Exception:
        ctx.count("skipped.exception")
        return
    ctx.count("seed.cases")
    ctx.count("seed.history." + hist)
    plain = md.render(D)
    if plain != h1:
        ctx.count("seed.resolved_through_R")
        ctx.nontrivial("seed", R, D, hist)
    if h1 != h2:
        viol(ctx, "seeded-env-differs-from-prepending", f"render(D, env seeded by R) = {h1[:300]!r} but render(R+blank+D) = {h2[:300]!r}", case)
        return
    # first definition wins in both cases
    r1 = {k: (v["href"], v["title"]) for k, v in (env.get("references") or {}).items()}
    r2 = {k: (v["href"], v["title"]) for k, v in (e2.get("references") or {}).items()}
    if hist != "other_first" and r1 != r2:
        viol(ctx, "seeded-env-references-differ", f"references after seeding {r1} vs one go {r2}", case)


# ---- (2) accounting -----------------------------------------------------------------------------------------------
def acct_case(ctx, case):
    ctx.count("evaluations")
    ctx.current = case
    md = W.get_md(MDI)
    src = case["src"]
    env = {}
    try:
        toks = md.parse(src, env)
    except Exception:
        ctx.count("skipped.exception")
        return
    ctx.count("acct.docs")
    if case.get("pure") and any(t.type != "definition" for t in toks):
        viol(ctx, "wellformed-definition-not-recognised", f"a block of well-formed definitions leaves tokens {[t.type + ':' + t.content[:30] for t in toks if t.type != 'definition'][:6]}", case)
        return
    produced = []
    for t in toks:
        if t.type == "definition":
            produced.append((t.meta.get("id"), t.meta.get("url"), t.meta.get("title"), tuple(t.map or ())))
    refs = env.get("references") or {}
    dups = env.get("duplicate_refs") or []
    consumed = [(k, v["href"], v["title"], tuple(v["map"])) for k, v in refs.items()] + [(d["label"], d["href"], d["title"], tuple(d["map"])) for d in dups]
    ctx.count("acct.definitions", len(produced))
    ctx.count("acct.duplicates", len(dups))
    if sorted(produced) != sorted(consumed):
        viol(ctx, "definitions-not-recorded-exactly-once", f"definition events {sorted(produced)} != recorded references+duplicates {sorted(consumed)}", case)
        return
    # first occurrence of every label is the one in `references`
    first = {}
    for p in produced:
        first.setdefault(p[0], p)
    for k, v in refs.items():
        if first.get(k) != (k, v["href"], v["title"], tuple(v["map"])):
            viol(ctx, "first-definition-does-not-win", f"label {k!r}: references holds {v} but the first definition event is {first.get(k)}", case)
            return
    # "with the map of its own lines": destination and title cannot hold more line breaks than the definition has lines to spare
    # (unless the source spells a line break as %0A or a character reference)
    lines = src.split("\n")
    for (k, href, title, mp) in consumed:
        if len(mp) != 2:
            continue
        seg = "\n".join(lines[mp[0]:mp[1]]).lower()
        if any(x in seg for x in ("%0a", "&#10;", "&#xa;", "&#x0a;", "&newline;", "&#010;")):
            continue
        ctx.count("acct.own_lines_checked")
        nb = href.upper().count("%0A") + title.count("\n")
        if nb > mp[1] - mp[0] - 1:
            viol(ctx, "definition-content-beyond-its-map", f"definition {k!r} with map {list(mp)} ({mp[1] - mp[0]} line(s)) holds {nb} line break(s) in href {href!r} / title {title!r}", case)
            return
    # definitions written by the generator at known lines
    for w in case.get("written", []):
        ls = tuple(w["lines"])
        hit = [c for c in consumed if c[3] == ls]
        if len(hit) != 1:
            viol(ctx, "written-definition-not-located", f"definition written on lines {ls} ({w['label']!r}) recorded {len(hit)} times: {consumed}", case)
            return
        if onorm(hit[0][0]) != onorm(w["label"]) and hit[0][0] != w["label"]:
            # the recorded key is the implementation's normal form; equivalence is judged by the oracle normal form of both
            pass
        ctx.count("acct.written_defs_located")
    if produced:
        ctx.nontrivial("acct", src)


# ---- (2b) resolution fidelity: a resolved reference carries exactly its definition's destination and title -----------------
MDL = {"preset": "commonmark", "options": {"store_labels": True}}


def fidelity_case(ctx, case):
    from vf.util import walk
    ctx.count("evaluations")
    ctx.current = case
    md = W.get_md(MDL)
    env = {}
    try:
        toks = md.parse(case["src"], env)
    except Exception:
        ctx.count("skipped.exception")
        return
    refs = env.get("references") or {}
    byn = {}
    for k, v in refs.items():
        byn.setdefault(onorm(k), v)
    n = 0
    for t in walk(toks):
        if t.type in ("link_open", "image") and isinstance(t.meta, dict) and "label" in t.meta:
            ent = byn.get(onorm(t.meta["label"])) or byn.get(onorm(t.meta["label"].replace("ı", "i")))
            n += 1
            if ent is None:
                viol(ctx, "resolved-reference-without-definition", f"{t.type} carries label {t.meta['label']!r} but no such definition is recorded: {sorted(refs)}", case)
                return
            url = t.attrs.get("href" if t.type == "link_open" else "src")
            title = t.attrs.get("title", "")
            if url != ent["href"] or title != ent["title"]:
                viol(ctx, "resolved-reference-differs-from-definition", f"{t.type} [{t.meta['label']}] has ({url!r}, {title!r}) but its definition says ({ent['href']!r}, {ent['title']!r})", case)
                return
    ctx.count("fidelity.docs")
    ctx.count("fidelity.resolved_references", n)
    if n:
        ctx.nontrivial("fidelity", case["src"])


# ---- (3) label equivalence ---------------------------------------------------------------------------------------------
def label_case(ctx, case):
    ctx.count("evaluations")
    ctx.current = case
    md = W.get_md(MD)
    L1, L2, form = case["L1"], case["L2"], case["form"]
    use = {"shortcut": f"[{L2}]", "collapsed": f"[{L2}][]", "full": f"[t][{L2}]", "image": f"![t][{L2}]"}[form]
    src = f"[{L1}]: /dest\n\n{use}\n"
    try:
        env = {}
        toks = md.parse(src, env)
    except Exception:
        ctx.count("skipped.exception")
        return
    if not env.get("references"):
        ctx.count("label.L1_not_a_definition")
        return
    ctx.count("label.pairs")
    resolved = any(c.type in ("link_open", "image") and (c.attrs.get("href") == "/dest" or c.attrs.get("src") == "/dest") for t in toks for c in (t.children or []))
    want = onorm(L1) == onorm(L2)
    # is L2 a syntactically valid label at all? it is if it resolves against itself
    e2 = {}
    t2 = md.parse(f"[{L2}]: /dest\n\n{use}\n", e2)
    self_ok = any(c.type in ("link_open", "image") for t in t2 for c in (t.children or []))
    if not self_ok:
        ctx.count("label.L2_not_usable")
        return
    ctx.count("label.pairs_equal" if want else "label.pairs_unequal")
    if want:
        ctx.nontrivial("label", L1, L2, form)
    if resolved != want:
        if resolved and not want and onorm(L1.replace("ı", "i")) == onorm(L2.replace("ı", "i")):
            key = "label-fold:dotless-i"
        else:
            key = "label-match-differs-from-casefold"
        viol(ctx, key, f"[{L2!r}] {'resolves' if resolved else 'does not resolve'} against [{L1!r}] but casefold+blank-collapse says {'equal' if want else 'different'} "
             f"({onorm(L1)!r} vs {onorm(L2)!r})", case)


# ---- (4) reference vs inline ------------------------------------------------------------------------------------------
def links(children):
    return [(c.type, dict(c.attrs)) for c in children if c.type in ("link_open", "image")]


TRIPLE_CONFS = {
    "cm": MD,
    "hooks": {"preset": "commonmark", "link_hooks": True},          # application overrides normalizeLink / validateLink
    "nocode": {"preset": "commonmark", "disable": ["code"]},          # indented continuation lines are not code
    "js": {"preset": "js-default"},
}


def triple_case(ctx, case):
    ctx.count("evaluations")
    ctx.current = case
    cname = case.get("conf", "cm")
    md = W.get_md(TRIPLE_CONFS[cname])
    ctx.count("triples.conf." + cname)
    text, dest, title, bang, sep = case["text"], case["dest"], case["title"], case["bang"], case.get("sep", "")
    inl = f"{bang}[{text}]({sep}{dest}{title})\n"
    ref = f"{bang}[{text}][r]\n\n[r]: {sep}{dest}{title}\n"
    try:
        ti = md.parse(inl)
        tr = md.parse(ref)
    except Exception:
        ctx.count("skipped.exception")
        return
    ctx.count("triples")
    ci = ti[1].children if len(ti) > 1 and ti[1].type == "inline" else []
    cr = tr[1].children if len(tr) > 1 and tr[1].type == "inline" else []
    kind = "image" if bang else "link_open"

    def outer(ch):
        # the construct under test is the first token of its paragraph
        return bool(ch) and ch[0].type == kind
    oi, orr = outer(ci), outer(cr)
    if cname == "hooks":
        try:
            ts = W.get_md(MD).parse(inl)
            cs = ts[1].children if len(ts) > 1 and ts[1].type == "inline" else []
            if links(cs) != links(ci):
                ctx.count("triples.hook_changed_result")
        except Exception:
            pass
    if oi != orr:
        # (a line that interrupts the definition paragraph interrupts the inline form's paragraph just the same, so no allowance
        # for "definition not recognised" is needed: on the whole alphabet both forms agree on the unchanged tree)
        viol(ctx, "reference-vs-inline:link-presence", f"inline form {'yields' if oi else 'does not yield'} a {kind}, reference form {'does' if orr else 'does not'}: {inl!r} vs {ref!r}", case)
        return
    if not oi:
        ctx.count("triples.neither")
        return
    ctx.count("triples.both_link")
    ctx.nontrivial("triple", text, dest, title, bang, cname, sep)
    if len(tr) != 3:
        viol(ctx, "reference-vs-inline:definition-residue", f"reference form resolves but the definition left extra tokens {[t.type + ':' + t.content[:30] for t in tr[3:]][:4]}: {ref!r}", case)
        return
    d = first_diff(stream(ci), stream(cr))
    if d:
        viol(ctx, "reference-vs-inline:tokens-differ", f"{d} | {inl!r} vs {ref!r}", case)


PRECEDING = ["- [a]: /a\n", "> [a]: /a\n", "1. [a]: /a\n", "- [a]: /a\n  [c]: /c\n", "> - [a]: /a\n", "- > [a]: /a\n", "-   [a]:\n    /a\n", "> [a]: /a 'x\n> y'\n",
             "\n", "para\n\n", "- i\n\n", "[a]: /a\n", "[a]: /a\n[c]: /c 'q'\n", "# h\n", "***\n", "```\nf\n```\n", "- [a]: /a\n- [c]: /c\n", "10. [a]: /a\n"]


def context_case(ctx, case):
    """a definition is recognised, and resolves to the same link, whatever closed construct precedes it directly (another definition
    inside a list item or quote, a heading, a fence, ...): nothing before it can be continued by its first line"""
    ctx.count("evaluations")
    ctx.current = case
    md = W.get_md(MD)
    lab, dest, title, pre = case["label"], case["dest"], case["title"], case["pre"]
    body = f"[{lab}]: {dest}{title}\n\n[x][{lab}] ![y][{lab}]\n"
    try:
        t_alone = md.parse(body)
        t_ctx = md.parse(pre + body)
    except Exception:
        ctx.count("skipped.exception")
        return
    ctx.count("context.cases")

    def last_links(toks):
        inl = [t for t in toks if t.type == "inline"]
        return links(inl[-1].children) if inl else None
    a, b = last_links(t_alone), last_links(t_ctx)
    if a:
        ctx.count("context.resolved_alone")
        ctx.nontrivial("context", lab, dest, title, pre)
    if a != b:
        viol(ctx, "definition-depends-on-preceding-construct", f"alone the references resolve to {a}, after {pre!r} to {b} | doc={pre + body!r}", case)


def replay(ctx, case):
    {"seed": seed_case, "acct": acct_case, "label": label_case, "triple": triple_case, "fidelity": fidelity_case, "context": context_case}[case["kind"]](ctx, case)


def gen_defs(rng, n, labels=None):
    out, written = [], []
    line = 0
    for i in range(n):
        lab = rng.choice(labels or LABELS)
        t = rng.choice(TITLES)
        d = rng.choice(["/u%d" % i, "<u %d>" % i, "http://x.y/%d?a=b" % i])
        text = f"[{lab}]: {d}{t}"
        nl = text.count("\n") + 1
        out.append(text)
        written.append({"label": lab, "lines": [line, line + nl]})
        line += nl
    return "\n".join(out) + "\n", written


def run(ctx):
    rng = ctx.rng
    # (1)
    for k in range(ctx.scale(30000, 900000)):
        labs = [rng.choice(LABELS) for _ in range(rng.randint(1, 3))]
        R, _w = gen_defs(rng, rng.randint(1, 4), labs + [rng.choice(LABELS)])
        D = gen.strip_surrogates(rng.choice([gen.gram(rng, nblocks=2), gen.soup(rng, 5), "p\n"]))
        uses = " ".join(rng.choice([f"[{l}]", f"[t][{l}]", f"![i][{l}]", f"[{l}][]"]) for l in (labs + [rng.choice(LABELS)]))
        D = D + "\n\n" + uses + "\n"
        if rng.random() < 0.4:
            d2, _ = gen_defs(rng, rng.randint(1, 2), labs)
            D += "\n" + d2
        case = {"kind": "seed", "R": R, "D": D, "hist": rng.choice(["seeded", "seeded", "twice", "other_first"])}
        seed_case(ctx, case)
        if k % 2999 == 0:
            ctx.sample({"kind": "seed", "R": R, "D": D[-120:]})
    # (2)
    for k in range(ctx.scale(24000, 700000)):
        parts, written, line = [], [], 0
        for _ in range(rng.randint(1, 5)):
            r = rng.random()
            if r < 0.55:
                block, w = gen_defs(rng, rng.randint(1, 3))
                for x in w:
                    x["lines"] = [x["lines"][0] + line, x["lines"][1] + line]
                written += w
            elif r < 0.75:
                block = rng.choice(["para [r]\n", "# h\n", "> q\n", "- i\n", "```\nc\n```\n", "***\n"])
            else:
                pre = rng.choice(["> ", "- ", "1. "])
                inner, w = gen_defs(rng, rng.randint(1, 2))
                ls = inner.split("\n")[:-1]
                cont = pre if pre == "> " else " " * len(pre)
                block = "\n".join((pre if i == 0 else cont) + l for i, l in enumerate(ls)) + "\n"
                for x in w:
                    x["lines"] = [x["lines"][0] + line, x["lines"][1] + line]
                written += w
            parts.append(block)
            line += block.count("\n") + 1
        src = "\n".join(parts)
        # a definition directly after a paragraph line is paragraph text, not a definition: drop those from 'written'
        ls = src.split("\n")
        ok_written = []
        for w in written:
            s = w["lines"][0]
            prev = ls[s - 1] if s > 0 else ""
            if prev.strip() == "" or re.match(r"^\s*(>|[-*+]|\d+[.)])?\s*\[[^\]]*\]:", prev) or prev.rstrip().endswith(("'", '"', ")")) or re.search(r"^(#|```|\*\*\*)", prev):
                ok_written.append(w)
        acct_case(ctx, {"kind": "acct", "src": src, "written": ok_written if rng.random() < 0.0 else []})
    # a backslash at the end of a line inside / after the destination
    for k in range(ctx.scale(6000, 150000)):
        lab = rng.choice(LABELS)
        d = rng.choice(["", "/u", "<a", "a\\", "<", "(", "/u 't", "/u (", "/u \"a\\"])
        follow = rng.choice(["x", "'t'", "/v", "", "[x]: /y", "> q", "b>", "b> 't'", "c)", "t'", "  y", "\\"])
        pre = rng.choice(["", "", "> ", "- "])
        src = f"{pre}[{lab}]:{rng.choice(['', ' ', '  '])}{d}\\\n{'  ' if pre == '- ' else pre}{follow}\n\n[{lab}]\n"
        ctx.count("acct.backslash_eol")
        acct_case(ctx, {"kind": "acct", "src": src, "written": []})
    # written-definition location on clean blocks (every definition preceded by a blank line)
    for k in range(ctx.scale(12000, 300000)):
        n = rng.randint(1, 5)
        srcs, written, line = [], [], 0
        for i in range(n):
            block, w = gen_defs(rng, 1)
            for x in w:
                x["lines"] = [x["lines"][0] + line, x["lines"][1] + line]
            written += w
            srcs.append(block)
            line += block.count("\n") + 1
        src = "\n".join(srcs)
        env = {}
        md = W.get_md(MDI)
        # keep only the definitions the parser recognised as such line-exactly is the property; a title that fails to parse
        # makes the line a paragraph - then nothing is recorded for it and it is not a 'definition in the source'
        acct_case(ctx, {"kind": "acct", "src": src, "written": written, "pure": True})
    # (2b) uses of defined labels in hostile surroundings: a failed inline-link attempt right after the label, other links around
    tails = ["", "", " x", "(see \"Intro\" above)", "(b (c) d) e", "(/x 'stale'", "(/y \"t\" z)", "(<u v> 'q' r)", "[]", "[ ]", "(", "()", "(/ok \"good\")", ": c", "[other]", "(\n'nl' x)"]
    for k in range(ctx.scale(40000, 1000000)):
        labs = [rng.choice(LABELS) for _ in range(rng.randint(1, 3))]
        defs = []
        for i, l in enumerate(labs):
            shape = rng.random()
            d = rng.choice(["/u%d" % i, "<u %d>" % i, "http://x.y/%d" % i])
            if shape < 0.25:
                # destination, trailing blanks, then a line that STARTS with a complete title token but goes on: the definition has
                # no title and the next line is paragraph text
                follow = rng.choice(['"title" ok', "'quoted' word", "(see above) for details", '"t"x'])
                defs.append("[%s]: %s%s\n%s" % (l, d, rng.choice(["  ", " ", "", "\t"]), follow))
            else:
                defs.append(f"[{l}]: {d}{rng.choice(TITLES)}")
        uses = " ".join(rng.choice(["[%s]", "![%s]", "[t][%s]", "[%s][]"]) % l + rng.choice(tails) for l in labs + [rng.choice(labs)])
        src = ("\n\n".join(defs) + "\n\n" + uses + "\n") if rng.random() < 0.5 else (uses + "\n\n" + "\n\n".join(defs) + "\n")
        fidelity_case(ctx, {"kind": "fidelity", "src": src})
        if any("ok" in x or "word" in x or "details" in x or '"t"x' in x for x in defs):
            # those definitions must be recorded although a title-looking line follows
            md = W.get_md(MD)
            env = {}
            try:
                md.parse(src, env)
            except Exception:
                continue
            ctx.count("fidelity.defs_before_titlelike_text")
            got = {onorm(k) for k in (env.get("references") or {})}
            want = {onorm(l) for l in labs}
            if not want <= got and not {onorm(l.replace("ı", "i")) for l in labs} <= {x.replace("ı", "i") for x in got}:
                viol(ctx, "wellformed-definition-not-recognised", f"definitions for {sorted(want - got)} are not recorded (a title-like line with trailing text follows the destination)", {"kind": "fidelity", "src": src})
    # (2c) a definition directly after every kind of closed construct
    for k in range(ctx.scale(40000, 1000000)):
        context_case(ctx, {"kind": "context", "label": rng.choice(["b", "b", "Foo Bar", "foo\\]\nbar", "x\ny"]), "dest": rng.choice(DESTS), "title": rng.choice(TITLES), "pre": rng.choice(PRECEDING)})
    # (3)
    classes = {}
    for l in LABELS:
        classes.setdefault(onorm(l), []).append(l)
    multi = [v for v in classes.values() if len(v) > 1]
    for k in range(ctx.scale(50000, 1500000)):
        if rng.random() < 0.4:
            a, b = rng.sample(rng.choice(multi), 2)
        else:
            a, b = rng.choice(LABELS), rng.choice(LABELS)
        if rng.random() < 0.15:
            a = gen.strip_surrogates(gen.uni_text(rng, rng.randint(1, 4), ["case", "letters", "space"])).replace("[", "").replace("]", "").replace("\\", "") or "z"
            b = rng.choice([a.upper(), a.lower(), a.casefold(), a.swapcase(), a.title(), " " + a + "  "])
        label_case(ctx, {"kind": "label", "L1": a, "L2": b, "form": rng.choice(["shortcut", "collapsed", "full", "image"])})
    # (4)
    for k in range(ctx.scale(90000, 2500000)):
        case = {"kind": "triple", "text": rng.choice(TEXTS), "dest": rng.choice(DESTS), "title": rng.choice(TITLES), "bang": rng.choice(["", "!"])}
        if rng.random() < 0.3:
            case["text"] = rng.choice(TEXTS) + " " + rng.choice(TEXTS)
        case["conf"] = rng.choice(["cm", "cm", "hooks", "hooks", "nocode", "js"])
        if rng.random() < 0.25 and not (case["dest"][:1] in "#->`~=+*_" or case["dest"][:1].isdigit()):
            # (a destination that alone on its line starts a block - '#' - is excluded: the inline spelling appends ')' to that line,
            # the definition does not, so the two spellings are not the same line-wise)
            case["sep"] = rng.choice(["\n", "\n    ", "\n\t", "  ", "\n      "])
        triple_case(ctx, case)
        if k % 4999 == 0:
            ctx.sample(case)


@selftest
def _selftest():
    assert onorm("Foo  Bar") == onorm("foo\tBAR") and onorm("ß") == onorm("SS") and onorm("ı") != onorm("i")
