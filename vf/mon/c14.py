"""C14 — an exception escaping from user code leaves the instance intact."""
from __future__ import annotations

import collections

from vf import gen
from vf.selftests import selftest

LEVEL = "fault_enumeration"
RULE = (
    "crash points = (document, API call, callback, i-th invocation, exception type): counting plug-in rules are installed in every "
    "chain (core before/after block and inline, block first/before paragraph incl. all terminator chains, inline first/last, inline2), "
    "render rules for text/fence/image/link_open/paragraph_open and a highlight callback; a dry run counts the invocations n_c of each "
    "callback c, then for every (c, i<=n_c) [quick: all for small documents, stride for larger; thorough: all] the i-th invocation "
    "raises one of {ValueError, KeyError, RecursionError, a BaseException subclass, StopIteration}; required: the very exception "
    "object reaches the caller, and afterwards get_active_rules(), options, renderer rule names and all probe parses/renders equal "
    "those of a twin instance (same plug-ins, never armed). Mode 'fresh' uses a new instance per crash point, mode 'sequence' "
    "subjects one instance to a random sequence of crash points, probing after each. After every failed call one reconfiguration "
    "(maxNesting lowered/raised, typographer/breaks/html/xhtmlOut flipped, quotes, langPrefix, rules disabled; through item and attribute "
    "interface) is applied to the instance and to a live twin alike, both render probes sensitive to it, and the change is undone. reset_rules: entered from ordinary states and from states in which the inline or inline2 chain is empty; bodies that exit normally, raise "
    "(5 exception kinds), return/break out of the block, nested 2-3 deep with failures at each level, with rules enabled/disabled/"
    "added inside: rules in force afterwards must be those on entry. Non-trivial = crash point at which the exception really was "
    "raised inside the library; distinct by (document, api, callback, i, exception)."
)
ASSUMPTIONS = ["twin = identically built instance (same plug-ins) on which no callback ever raised", "callbacks are invoked by the library through its public plug-in interfaces only"]
NSHARDS = {"quick": 16, "thorough": 32}

DOCS = [
    "# h *e*\n\n- a [l](u) `c`\n  > q ![i](s)\n\n```py\nx\n```\n\n[r]: /u\n\n| a | b |\n|---|---|\n| c | [r] |\n",
    "> - 1. x\n\ty\n\n<div>\nz\n</div>\n\n[t [n](m) t](u \"ti\") ![a ![b](c) d](e)\n",
    "a\n^\n",
    "*e* **s** ~~d~~ `c` <http://a.b> &amp; \\* \"q\" -- (c)\nsoft  \nhard\n",
    "~~~\nf\n~~~\n\n    code\n\n---\n\nT\n===\n",
    "[x][r] [r]\n\n[r]: <u v> 't'\n[r]: /dup\n",
    "```a\n1\n```\n\n- ```b\n  2\n  ```\n\n> ~~~c\n> 3\n\n![i](s) ![j ![k](l)](m) ![n][r]\n\n[r]: /u\n",
]
PROBES = DOCS[:4] + ["*a* [r]\n\n[r]: /x\n", "```js\nq\n```\n",
                     # nesting-sensitive probes: constructs just below / at the maxNesting cut of the three configurations (20, 100, 20)
                     "[" * 17 + "a" + "](u)" * 17 + "\n", "> " * 18 + "q\n", "*a **b *c **d *e **f *g* f** e* d** c* b** a*\n",
                     "[t " + "[" * 12 + "x" + "]" * 12 + "](u) ![" * 3 + "a" + "](v)" * 3 + "\n", "- " * 9 + "deep\n",
                     # (only different under a linkifier) bare URLs with emphasis-like characters, after and inside links and raw <a>
                     "see http://host/x*y*z and www.a.bc/_q_ then [l](u) http://h.i/j*k* <a href=x>http://in.a/*b*</a> m@n.op\n"]


def _opt(name, value):
    """reconfiguration = one option set to a new value (through the item or the attribute interface), undone afterwards"""
    def apply(md, via_attr):
        old = md.options[name]
        new = (not old) if value is _FLIP else value
        if via_attr:
            setattr(md.options, name, new)
        else:
            md.options[name] = new
        return old

    def undo(md, old, via_attr):
        if via_attr:
            md.options[name] = old
        else:
            setattr(md.options, name, old)
    return apply, undo


def _rules(names):
    def apply(md, via_attr):
        md.disable(names, True)
        return None

    def undo(md, old, via_attr):
        md.enable(names, True)
    return apply, undo


_FLIP = object()
NEST = ["[a [b [c [d [e](u)](u)](u)](u)](u) ![a ![b ![c ![d](u)](u)](u)](u)\n", "> > > > > q\n\n- - - - x\n", "*a **b *c **d *e* d** c* b** a*\n",
        "[" * 30 + "a" + "](u)" * 30 + "\n", "> " * 30 + "q\n", "[t " + "[" * 25 + "x" + "]" * 25 + "](u)\n"]
# what is changed on instance and twin alike after a failed call, and the probes that show whether the change took effect
RECONFS = [
    ("maxNesting=3", _opt("maxNesting", 3), NEST),
    ("maxNesting=200", _opt("maxNesting", 200), NEST),
    ("maxNesting=1", _opt("maxNesting", 1), NEST[:3]),
    ("typographer", _opt("typographer", _FLIP), ['"q" \'s\' -- (c) ... +-\n']),
    ("quotes", _opt("quotes", "«»‹›"), ['"q" \'s\' "a \'b\' c"\n']),
    ("breaks", _opt("breaks", _FLIP), ["a\nb\n\n> c\n> d\n"]),
    ("html", _opt("html", _FLIP), ["<b>x</b> <!-- c -->\n\n<div>\ny\n</div>\n"]),
    ("xhtmlOut", _opt("xhtmlOut", _FLIP), ["a  \nb ![i](s)\n\n---\n"]),
    ("langPrefix", _opt("langPrefix", "x-"), ["```js\nx\n```\n"]),
    ("disable emphasis,link", _rules(["emphasis", "link"]), ["*a* [l](u) ![i](s)\n"]),
    ("disable fence,image", _rules(["fence", "image"]), ["```\nx\n```\n\n![i](s)\n"]),
]


def _probe_docs(md, docs):
    out = []
    for p in docs:
        env = {}
        try:
            out.append((md.render(p, env), env))
        except BaseException as e:  # noqa: BLE001
            out.append(f"EXC {type(e).__name__}: {e}")
    return out


def reconfigure_and_compare(ctx, md, ctl, conf, record=True):
    """the instance that saw the failed call(s) and a live twin that did not see it receive the same reconfiguration; both must answer alike"""
    tw = ctl.get("twin")
    if tw is None:
        tw = ctl["twin"] = build(conf)[0]
    n = ctl["nreconf"] = ctl.get("nreconf", 0) + 1
    name, (apply, undo), docs = RECONFS[n % len(RECONFS)]
    via_attr = bool((n // len(RECONFS)) % 2)
    olds = [apply(m, via_attr) for m in (md, tw)]
    got, want = _probe_docs(md, docs), _probe_docs(tw, docs)
    for m, old in zip((md, tw), olds):
        undo(m, old, via_attr)
    if record:
        ctx.count("post_fault_reconfigurations")
        if got != _probe_docs(tw, docs):
            ctx.count("post_fault_reconfigurations.effective")
    if got != want:
        j = next(k for k in range(len(got)) if got[k] != want[k])
        return [("post-reconfiguration-differs", f"after the failed call, then {name}: probe {docs[j]!r} gives {str(got[j])[:200]!r}, twin {str(want[j])[:200]!r}")]
    return []


class Boom(BaseException):
    pass


EXC = {"ValueError": ValueError, "KeyError": KeyError, "RecursionError": RecursionError, "BaseException": Boom, "StopIteration": StopIteration}
CALLBACKS = ["core_first", "core_mid", "core_last", "blk_first", "blk_para", "inl_first", "inl_last", "inl2", "hl", "rr_text", "rr_fence", "rr_image", "rr_link", "rr_para"]


def floors(tier):
    q = tier == "quick"
    f = {"crash_points.fresh": 5000 if q else 60000, "crash_points.sequence": 3000 if q else 20000, "raised_inside_library": 8000, "fault.silent_invocation": 300,
         "fault.in_container": 300, "fault.in_skiptoken": 100, "reset_rules.paths": 2000, "hammer.sequences": 100, "reset_rules.nested": 500, "reset_rules.entry_with_empty_chain": 500, "reset_rules.exception_propagated": 1000, "post_state_compared": 8000,
         "post_fault_reconfigurations": 8000, "same_document_reparsed": 8000, "reset_rules.deferred_entry": 300, "reset_rules.active_list_mutated": 300, "crash_points.big_document": 30, "post_fault_reconfigurations.effective": 4000}
    for c in CALLBACKS:
        f["cb." + c] = 50
    for e in EXC:
        f["exc." + e] = 500
    return f


def build(conf_name="cmx"):
    """instance with counting plug-ins everywhere; returns (md, ctl) - ctl['target'] = (callback, i, exc) arms one crash point"""
    from markdown_it import MarkdownIt
    if conf_name == "cmx":
        md = MarkdownIt("commonmark").enable(["table", "strikethrough"])
    elif conf_name == "jst":
        md = MarkdownIt("js-default", {"typographer": True})
    elif conf_name == "gfm":
        from vf.conf import StubLinkify
        md = MarkdownIt("gfm-like")
        md.linkify = StubLinkify()
    else:
        md = MarkdownIt("zero").enable(["emphasis", "link", "image", "fence", "backticks"])
    ctl = {"target": None, "ctr": collections.Counter(), "fired": None, "where": {}}

    def hit(name, **info):
        ctr = ctl["ctr"]
        ctr[name] += 1
        t = ctl["target"]
        if t is not None and t[0] == name and t[1] == ctr[name]:
            ctl["target"] = None
            exc = EXC[t[2]](f"injected at {name}#{t[1]}")
            ctl["fired"] = exc
            ctl["where"] = info
            raise exc
    md.core.ruler.before("normalize", "p_core_first", lambda s: hit("core_first"))
    md.core.ruler.after("block", "p_core_mid", lambda s: hit("core_mid"))
    md.core.ruler.push("p_core_last", lambda s: hit("core_last"))
    first_block = md.block.ruler.get_all_rules()[0]
    md.block.ruler.before(first_block, "p_blk_first",
                          lambda s, a, b, silent: hit("blk_first", silent=silent, level=s.level, parent=s.parentType) or False,
                          {"alt": ["paragraph", "reference", "blockquote", "list"]})
    md.block.ruler.before("paragraph", "p_blk_para", lambda s, a, b, silent: hit("blk_para", silent=silent, level=s.level, parent=s.parentType) or False)
    md.inline.ruler.before("text", "p_inl_first", lambda s, silent: hit("inl_first", silent=silent, level=s.level, posmax=s.posMax < len(s.src)) or False)
    md.inline.ruler.push("p_inl_last", lambda s, silent: hit("inl_last", silent=silent, level=s.level, posmax=s.posMax < len(s.src)) or False)
    md.inline.ruler2.push("p_inl2", lambda s: hit("inl2"))

    def hl(c, l, a):
        hit("hl")
        return ""
    md.options["highlight"] = hl
    for tok, nm in (("text", "rr_text"), ("fence", "rr_fence"), ("image", "rr_image"), ("link_open", "rr_link"), ("paragraph_open", "rr_para")):
        orig = md.renderer.rules.get(tok)

        def rr(self, tokens, idx, options, env, _nm=nm, _orig=orig):
            hit(_nm)
            if _orig is not None:
                return _orig(tokens, idx, options, env)
            return self.renderToken(tokens, idx, options, env)
        md.add_render_rule(tok, rr)
    return md, ctl


def snapshot(md):
    opts = {k: (v if not callable(v) else "<callable>") for k, v in md.options.items()}
    return {"rules": md.get_active_rules(), "all": md.get_all_rules(), "options": opts, "render_rules": sorted(md.renderer.rules)}


def probe(md):
    out = []
    for p in PROBES:
        env = {}
        try:
            toks = md.parse(p, env)
            out.append(([t.as_dict() for t in toks], md.renderer.render(toks, md.options, env), env))
        except BaseException as e:  # noqa: BLE001
            out.append(f"EXC {type(e).__name__}: {e}")
    return out


_twins = {}


def twin_of(conf):
    if conf not in _twins:
        tw, _ = build(conf)
        _twins[conf] = (snapshot(tw), probe(tw))
    return _twins[conf]


def _call_result(md, api, doc):
    env = {}
    try:
        r = getattr(md, api)(doc, env)
    except BaseException as e:  # noqa: BLE001
        return f"EXC {type(e).__name__}: {e}"
    if not isinstance(r, str):
        r = [t.as_dict() for t in r]
    return (r, env)


_same_twins = {}


def _same_doc_twin(conf, api, doc):
    k = (conf, api, doc)
    if k not in _same_twins:
        if len(_same_twins) > 200:
            _same_twins.clear()
        _same_twins[k] = _call_result(build(conf)[0], api, doc)
    return _same_twins[k]


def dry_counts(conf, api, doc):
    md, ctl = build(conf)
    getattr(md, api)(doc)
    return dict(ctl["ctr"])


def crash(ctx, md, ctl, conf, api, doc, cb, i, exc, record=True):
    """arm one crash point on md, make the call, compare post-state with the twin. returns list of (key, msg)"""
    errs = []
    ctl["ctr"].clear()
    ctl["fired"] = None
    ctl["target"] = (cb, i, exc)
    raised = None
    try:
        getattr(md, api)(doc)
    except BaseException as e:  # noqa: BLE001
        raised = e
    ctl["target"] = None
    fired = ctl["fired"]
    if fired is None:
        if record:
            ctx.count("crash_point_not_reached")
        return errs, False
    if record:
        ctx.count("raised_inside_library")
        ctx.count("cb." + cb)
        ctx.count("exc." + exc)
        w = ctl["where"]
        if w.get("silent"):
            ctx.count("fault.silent_invocation")
        if w.get("level", 0) > 0 or w.get("parent") in ("blockquote", "list"):
            ctx.count("fault.in_container")
        if w.get("silent") and cb.startswith("inl"):
            ctx.count("fault.in_skiptoken")
        if w.get("posmax"):
            ctx.count("fault.posmax_shrunk")
    if raised is None:
        errs.append(("exception-swallowed", f"{exc} injected at {cb}#{i} did not reach the caller of {api}"))
    elif raised is not fired:
        errs.append(("exception-changed", f"{exc} injected at {cb}#{i} reached the caller as {type(raised).__name__}: {raised}"))
    want_snap, want_probe = twin_of(conf)
    snap = snapshot(md)
    if record:
        ctx.count("post_state_compared")
    if snap != want_snap:
        diff = [k for k in snap if snap[k] != want_snap[k]]
        errs.append(("post-state:" + ",".join(diff), f"after {exc} at {cb}#{i} in {api}: {diff} differ from the twin: {[(snap[k], want_snap[k]) for k in diff][:1]}"[:700]))
    got = probe(md)
    if got != want_probe:
        j = next(k for k in range(len(got)) if got[k] != want_probe[k])
        errs.append(("post-parse-differs", f"after {exc} at {cb}#{i} in {api}: probe {PROBES[j]!r} gives {str(got[j])[:200]!r}, twin {str(want_probe[j])[:200]!r}"))
    if not errs:
        # the very document of the failed call, parsed again without a fault (anything remembered per source text shows here)
        want_same = _same_doc_twin(conf, api, doc)
        got_same = _call_result(md, api, doc)
        if record:
            ctx.count("same_document_reparsed")
        if got_same != want_same:
            errs.append(("post-parse-differs:same-document", f"after {exc} at {cb}#{i} in {api}: the same document parsed again gives {str(got_same)[:300]!r}, twin {str(want_same)[:300]!r}"))
    if not errs:
        for key, msg in reconfigure_and_compare(ctx, md, ctl, conf, record):
            errs.append((key, f"{msg} | failed call: {exc} at {cb}#{i} in {api}"))
    return errs, True


def crash_case(ctx, case, record=True):
    ctx.current = case
    conf, api, doc = case["conf"], case["api"], case["doc"]
    md, ctl = build(conf)
    all_errs = []
    for (cb, i, exc) in case["points"]:
        ctx.count("evaluations")
        errs, reached = crash(ctx, md, ctl, conf, api, doc, cb, i, exc, record)
        if reached:
            ctx.nontrivial(doc, api, conf, cb, i, exc)
            if record:
                ctx.count("crash_points.sequence" if len(case["points"]) > 1 else "crash_points.fresh")
        for key, msg in errs:
            ctx.violation(key, f"{msg} | doc={doc!r} conf={conf} sequence={case['points'][:8]}", dict(case, points=case["points"][: case["points"].index([cb, i, exc]) + 1] if [cb, i, exc] in case["points"] else case["points"]))
        if errs:
            return False
    return True


# ---- reset_rules exit paths -----------------------------------------------------------------------------------------
def reset_case(ctx, case):
    """case: {"conf", "script": nested list describing with-blocks}"""
    from markdown_it import MarkdownIt
    ctx.count("evaluations")
    ctx.current = case
    md, ctl = build(case["conf"])
    pre = case.get("pre") or []
    if pre:
        # state on entry in which a whole chain has no active rule (a chain may legitimately be empty: inline and inline2)
        md.disable(pre, True)
        tw, _ = build(case["conf"])
        tw.disable(pre, True)
        want_probe = probe(tw)
        ctx.count("reset_rules.entry_with_empty_chain")
    else:
        want_probe = twin_of(case["conf"])[1]
    entry = md.get_active_rules()
    problems = []

    def body(script, depth):
        """script: list of actions; returns 'return' to unwind via return"""
        for act in script:
            k = act[0]
            if k == "disable":
                md.disable(act[1], True)
            elif k == "enable":
                md.enable(act[1], True)
            elif k == "mutate_active":
                # edit the lists that get_active_rules() hands out, then apply them (the snapshot taken on entry must be a copy)
                act_now = md.get_active_rules()
                for ch in ("inline", "block"):
                    if act[1] in act_now[ch]:
                        act_now[ch].remove(act[1])
                        (md.inline if ch == "inline" else md.block).ruler.enableOnly(act_now[ch])
                act_now["core"].append("vf_bogus")
                ctx.count("reset_rules.active_list_mutated")
            elif k == "add":
                md.inline.ruler.push(f"added{depth}_{len(md.inline.ruler.get_all_rules())}", lambda s, silent: False)
            elif k == "parse":
                md.render(DOCS[0])
            elif k == "raise":
                ctl["expected_exc"] = EXC[act[1]]
                raise EXC[act[1]](f"body raise depth {depth}")
            elif k == "fault":
                ctl["ctr"].clear()
                ctl["target"] = (act[1], 1, act[2])
                ctl["expected_exc"] = EXC[act[2]]
                try:
                    md.render(DOCS[0])
                    ctl["expected_exc"] = None   # the armed callback was not reached in this configuration
                finally:
                    ctl["target"] = None
            elif k == "return":
                return "return"
            elif k == "with":
                before = md.get_active_rules()
                ctx.count("reset_rules.nested" if depth >= 1 else "reset_rules.top")
                r = None
                try:
                    r = run_with(act[1], depth + 1)
                finally:
                    ctx.count("reset_rules.paths")
                    after = md.get_active_rules()
                    if after != before:
                        problems.append(f"depth {depth + 1}: rules after the block {diffrules(after, before)} differ from those on entry (exit by {act[2] if len(act) > 2 else 'see script'})")
                if r == "return":
                    return "return"
            elif k == "withd":
                # the context manager object is created first, rules are switched, and only then is the block entered:
                # "the rules in force on entry" are those at __enter__, not those at the reset_rules() call
                guard = md.reset_rules()
                for name_list, on in act[1]:
                    (md.enable if on else md.disable)(name_list, True)
                before = md.get_active_rules()
                ctx.count("reset_rules.deferred_entry")
                r = None
                try:
                    with guard:
                        r = body(act[2], depth + 1)
                finally:
                    ctx.count("reset_rules.paths")
                    after = md.get_active_rules()
                    if after != before:
                        problems.append(f"depth {depth + 1}: rules after a block entered later than it was created {diffrules(after, before)} differ from those on entry")
                if r == "return":
                    return "return"
            elif k == "loopbreak":
                before_loop = md.get_active_rules()
                for _ in range(2):
                    with md.reset_rules():
                        ctx.count("reset_rules.paths")
                        md.disable(["emphasis", "link"], True)
                        break
                if md.get_active_rules() != before_loop:
                    problems.append("break out of a reset_rules block did not restore the rules")
        return None

    def run_with(script, depth):
        with md.reset_rules():
            return body(script, depth)

    raised = None
    try:
        ctx.count("reset_rules.paths")
        run_with(case["script"], 0)   # the whole script runs inside an outermost block
    except BaseException as e:  # noqa: BLE001
        raised = e
    exp = ctl.get("expected_exc")
    if exp is not None and not isinstance(raised, exp):
        problems.append(f"an exception ({exp.__name__}) raised inside the reset_rules block(s) did not reach the caller (got {type(raised).__name__ if raised else 'normal return'})")
        ctx.count("reset_rules.exception_expected")
    elif exp is not None:
        ctx.count("reset_rules.exception_expected")
        ctx.count("reset_rules.exception_propagated")
    # added rules stay registered (disabled); compare rule activity for the rules that existed on entry
    final = md.get_active_rules()
    if final != entry:
        problems.append(f"after the outermost block rules in force {diffrules(final, entry)} differ from those on entry")
    if not problems:
        got = probe(md)
        if got != want_probe and not any(a[0] == "add" for a in flatten(case["script"])):
            problems.append("probe parses differ from the twin after the reset_rules blocks")
    ctx.nontrivial("reset", repr(case["script"]), case["conf"])
    for p in problems[:1]:
        ctx.violation("reset_rules-exception-swallowed" if "did not reach the caller" in p else "reset_rules-not-restored", f"{p} | script={case['script']} escaped={type(raised).__name__ if raised else None}", case)


def flatten(script):
    for a in script:
        yield a
        if a[0] == "with":
            yield from flatten(a[1])
        if a[0] == "withd":
            yield from flatten(a[2])


def diffrules(a, b):
    return {ch: (sorted(set(a[ch]) - set(b[ch])), sorted(set(b[ch]) - set(a[ch]))) for ch in a if a[ch] != b[ch]}


def gen_script(rng, depth=0):
    acts = []
    names = ["emphasis", "link", "table", "list", "blockquote", "backticks", "strikethrough", "heading", "image", "code", "fence", "newline", "entity"]
    for _ in range(rng.randint(1, 4)):
        r = rng.random()
        if r < 0.3:
            acts.append(["disable", rng.sample(names, rng.randint(1, 3))])
        elif r < 0.45:
            acts.append(["enable", rng.sample(names, rng.randint(1, 2))])
        elif r < 0.49:
            acts.append(["add"])
        elif r < 0.52:
            acts.append(["mutate_active", rng.choice(["emphasis", "link", "list", "backticks", "heading"])])
        elif r < 0.6:
            acts.append(["parse"])
        elif r < 0.74 and depth < 3:
            acts.append(["with", gen_script(rng, depth + 1)])
        elif r < 0.8 and depth < 3:
            acts.append(["withd", [[rng.sample(names, rng.randint(1, 2)), rng.random() < 0.4] for _ in range(rng.randint(1, 2))], gen_script(rng, depth + 1)])
        elif r < 0.85:
            acts.append(["loopbreak"])
    end = rng.random()
    if True:
        if end < 0.35:
            acts.append(["raise", rng.choice(list(EXC))])
        elif end < 0.5:
            acts.append(["fault", rng.choice(["core_mid", "blk_first", "inl_first", "rr_text", "hl", "inl2"]), rng.choice(list(EXC))])
        elif end < 0.6:
            acts.append(["return"])
    return acts


def replay(ctx, case):
    if case.get("kind") == "reset":
        reset_case(ctx, case)
    else:
        crash_case(ctx, case)


def run(ctx):
    rng = ctx.rng
    docs = list(DOCS)
    for _ in range(6 if ctx.quick else 24):
        docs.append(gen.strip_surrogates(gen.gram(rng, nblocks=rng.randint(1, 3)))[:400])
    idx = 0
    for di, doc in enumerate(docs):
        for conf in ("cmx", "jst", "zero", "gfm"):
            for api in ("render", "parse", "parseInline", "renderInline"):
                if conf == "gfm" and (api == "parse" or (ctx.quick and di >= 4)):
                    continue
                if api != "render" and di % 2:
                    continue
                try:
                    counts = dry_counts(conf, api, doc)
                except Exception:
                    continue
                total = sum(counts.values())
                ctx.cmax("max_invocations_per_call", total)
                # fresh instance per crash point
                points = [(cb, i) for cb, n in sorted(counts.items()) for i in range(1, n + 1)]
                stride = 1 if (not ctx.quick or total <= 400) else max(1, total // 400)
                for pi, (cb, i) in enumerate(points):
                    idx += 1
                    if not ctx.mine(idx):
                        continue
                    if pi % stride and i > 3:
                        continue
                    for exc in (EXC if (not ctx.quick or pi % 3 == 0) else [list(EXC)[(pi + di) % len(EXC)]]):
                        ok = crash_case(ctx, {"conf": conf, "api": api, "doc": doc, "points": [[cb, i, exc]]})
                # sequences on one instance
                for s in range(4 if ctx.quick else 16):
                    idx += 1
                    if not ctx.mine(idx) or not points:
                        continue
                    seq = [[cb, i, rng.choice(list(EXC))] for cb, i in rng.sample(points, min(len(points), rng.randint(3, 25)))]
                    crash_case(ctx, {"conf": conf, "api": api, "doc": doc, "points": seq})
                    if idx % 40 == 0:
                        ctx.sample({"conf": conf, "api": api, "doc": doc[:80], "points": seq[:5]})
                # hammer: the same crash point over and over on one instance (damage that only shows after it accumulated)
                for cb in sorted(counts):
                    idx += 1
                    if not ctx.mine(idx) or (ctx.quick and di >= 3):
                        continue
                    i = rng.randint(1, counts[cb])
                    ctx.count("hammer.sequences")
                    crash_case(ctx, {"conf": conf, "api": api, "doc": doc, "points": [[cb, i, "ValueError"]] * 110})
    # a document beyond the size thresholds small tests never reach (16 KiB+), with containers; crash points spread over all callbacks
    big = "".join(f"> quote {k} *e* [l](u{k})\n> - item `c{k}`\n>   more\n\n- a{k}\n  > q{k}\n\n{k}. x\n\npara {k} ![i](s) <http://a.b/{k}>\n\n" for k in range(260))
    counts = dry_counts("cmx", "render", big)
    bpoints = [(cb, i) for cb, n in sorted(counts.items()) for i in sorted({1, 2, n // 3, n // 2, n - 1, n} - {0})]
    for pi, (cb, i) in enumerate(bpoints):
        idx += 1
        if not ctx.mine(idx) or (ctx.quick and pi % 2 and cb.startswith(("rr_", "hl"))):
            continue
        ctx.count("crash_points.big_document")
        crash_case(ctx, {"conf": "cmx", "api": "render", "doc": big, "points": [[cb, i, "ValueError"]]})
    ctx.info["exhaustive_part"] = "thorough: every (callback, invocation index, exception type) of every sampled (document, conf, api); quick: all invocations for calls with <=150 invocations, stride otherwise, one exception type per point"
    for k in range(ctx.scale(12000, 300000)):
        script = gen_script(rng)
        pre = []
        if rng.random() < 0.3:
            inl2 = ["balance_pairs", "fragments_join", "emphasis", "strikethrough", "p_inl2"]
            inl = ["text", "linkify", "newline", "escape", "backticks", "strikethrough", "emphasis", "link", "image", "autolink", "html_inline", "entity", "p_inl_first", "p_inl_last"]
            pre = rng.choice([inl2, inl, inl + inl2])
        reset_case(ctx, {"kind": "reset", "conf": rng.choice(["cmx", "jst", "zero"]), "script": script, "pre": pre})
        if k % 1999 == 0:
            ctx.sample({"kind": "reset", "script": script})


@selftest
def _selftest():
    from vf.worker import Ctx
    ctx = Ctx("C14", "quick", 0, 0, 1)
    assert crash_case(ctx, {"conf": "cmx", "api": "render", "doc": DOCS[0], "points": [["inl_first", 3, "ValueError"]]}, record=False)
    assert ctx.violations == []
    # an instance that remembers a half-finished parse must be flagged: emulate by a plug-in that disables a rule before raising
    md, ctl = build("cmx")
    md.disable("emphasis")
    assert snapshot(md) != twin_of("cmx")[0]
