"""C12 — a parse depends only on configuration, source and env: no hidden shared state."""
from __future__ import annotations

import os
import sys

import copy
import hashlib

from vf import gen
from vf.selftests import selftest
from vf.util import first_diff, stream

LEVEL = "exploration"
RULE = (
    "cases = API histories of 5-60 steps over 1-3 live instances: construct (preset name / preset dict / options_update incl. "
    "list-valued quotes), parse/render/parseInline/renderInline of generated documents with env omitted / {} / shared / pre-seeded, "
    "enable/disable, option writes by item and attribute, add_render_rule, use(plugin), configure again, failing calls, mutation of "
    "returned tokens/env. After each history every instance is probed (12 probe documents, parse+render, env None vs {}) against "
    "(1) a twin built by replaying only the configuration steps and (2) results precomputed in the pristine process for a fixed "
    "panel of fresh configurations; a fingerprint of module-level containers is a diagnostic that triggers the full panel. "
    "Non-trivial = history with >=1 mutation on an instance other than the one probed first and >=1 env-less parse of a document "
    "with definitions; distinct by the step sequence."
    " Also: with a plug-in that hands data from parse to render through env, render(src) == render(src, {}) and likewise renderInline."
)
ASSUMPTIONS = ["'identically configured' = the twin replays the history's configuration steps only (construct, enable/disable, option writes, render rules, plug-ins)"]

PROBES = [
    "*a* [r] \"q\" (c) -- ...\n\n[r]: /x 't'\n", "> - 1. x\n\ty\n\n<b>z</b>\n", "a|b\n-|-\n~~s~~ http://x.y\n", "[r] [R] [leak]\n", "```py\nc\n```\n![i](s \"t\")\n",
    "---\n", "# h\n\nt\n===\n", "    code\n\n1. a\n2. b\n", "[x](javascript:1) <http://a.b> &amp; \\*\n", "line  \nbreak\\\nsoft\nend\n", "'single' \"double\" it's\n", "<div>\n*x*\n</div>\n\n- [ ] t\n",
    "|l|c|r|\n|:-|:-:|-:|\n|1|2|3|\n", "7. seven\n8. eight\n\n![img](s 'ti') [lnk](u \"tt\")\n",
]
PANEL = [
    ("commonmark", {}), ("js-default", {}), ("zero", {}), ("gfm-like", {"linkify": False}), ("default", {}),
    ("js-default", {"typographer": True, "breaks": True}), ("commonmark", {"html": False, "xhtmlOut": False}),
    ("js-default", {"quotes": ["<", ">", "(", ")"], "typographer": True}), ("commonmark", {"inline_definitions": True, "store_labels": True}),
    ("js-default", {"langPrefix": "l-", "maxNesting": 2}), ("commonmark", {"typographer": True, "quotes": "«»‹›"}), ("zero", {"html": True}),
]
RULES = ["table", "strikethrough", "emphasis", "link", "list", "code", "blockquote", "backticks", "smartquotes", "replacements", "html_inline",
         "reference", "image", "heading", "fence", "entity", "escape", "autolink", "newline", "hr", "html_block", "lheading"]
OPTS = [("breaks", True), ("breaks", False), ("xhtmlOut", False), ("xhtmlOut", True), ("langPrefix", "l-"), ("typographer", True), ("typographer", False),
        ("html", False), ("html", True), ("maxNesting", 3), ("quotes", "«»‹›"), ("quotes", ["a", "b", "c", "d"]),
        ("highlight", "hl_a"), ("highlight", "hl_b"), ("highlight", None), ("highlight", "hl_a"), ("maxNesting", 40), ("typographer", True)]


def floors(tier):
    return dict(_floors0(tier), **{'env_observer.renders': 150, 'env_observer.env_nonempty': 60, 'order.documents': 1000})


def _floors0(tier):
    q = tier == "quick"
    return {"histories": 3000 if q else 80000, "steps": 60000, "step.new": 5000, "step.parse_noenv_defs": 3000, "step.shared_env": 2000, "step.use": 500,
            "step.rrule": 500, "step.mutate_result": 1000, "step.set": 500, "step.badcall": 1000, "probe.used_vs_twin": 100000, "probe.pristine_panel": 3000,
            "fingerprints": 3000, "instances": 5000}


def rr_hr(self, tokens, idx, options, env):
    return "<hr class=x>\n"


def rr_text(self, tokens, idx, options, env):
    return "[" + tokens[idx].content.replace("<", "&lt;").replace("&", "&amp;") + "]"


def hl_a(content, lang, attrs):
    return "<i>A:" + lang + "</i>"


def hl_b(content, lang, attrs):
    return "<b>B:" + content.replace("<", "&lt;").replace("&", "&amp;") + "</b>"


HL = {"hl_a": hl_a, "hl_b": hl_b, None: None}


def plugin_core(md, tag="P"):
    def rule(state):
        for t in state.tokens:
            if t.type == "inline" and t.children:
                for c in t.children:
                    if c.type == "text":
                        c.content = c.content.replace("zz", tag)
    md.core.ruler.push("vf_plug_" + tag, rule)


def make_instance(step):
    from markdown_it import MarkdownIt, presets
    kind = step["how"]
    opts = copy.deepcopy(step["opts"])
    if kind == "name":
        return MarkdownIt(step["preset"], opts or None)
    mod = {"commonmark": presets.commonmark, "js-default": presets.js_default, "zero": presets.zero, "gfm-like": presets.gfm_like}[step["preset"]]
    return MarkdownIt(mod.make(), opts or None)


def apply_config(md, st):
    k = st["k"]
    if k in ("enable", "disable"):
        getattr(md, k)(list(st["names"]), True)
    elif k == "opt_item":
        md.options[st["key"]] = HL[st["val"]] if st["key"] == "highlight" else copy.deepcopy(st["val"])
    elif k == "opt_attr":
        setattr(md.options, st["key"], HL[st["val"]] if st["key"] == "highlight" else copy.deepcopy(st["val"]))
    elif k == "rrule":
        md.add_render_rule(st["name"], rr_hr if st["name"] == "hr" else rr_text)
    elif k == "use":
        md.use(plugin_core, tag=st["tag"])
    elif k == "configure":
        md.configure(st["preset"], copy.deepcopy(st["opts"]) or None)
    elif k == "set_snapshot":
        md.set(copy.deepcopy(st["opts"]))


def run_history(ctx, steps, record=True):
    """executes the steps; returns (instances, config-steps-per-instance)"""
    insts, cfg, shared = [], [], {}
    for st in steps:
        k = st["k"]
        if record:
            ctx.count("steps")
            ctx.count("step." + k)
        if k == "new":
            insts.append(make_instance(st))
            cfg.append([st])
            if record:
                ctx.count("instances")
            continue
        if not insts:
            continue
        i = st["i"] % len(insts)
        md = insts[i]
        if k in ("parse", "render", "parseInline", "renderInline"):
            f = getattr(md, k)
            envk = st["env"]
            try:
                if envk == "none":
                    res = f(st["src"])
                    if record and "]:" in st["src"]:
                        ctx.count("step.parse_noenv_defs")
                elif envk == "fresh":
                    res = f(st["src"], {})
                elif envk == "shared":
                    res = f(st["src"], shared.setdefault(i, {}))
                    if record:
                        ctx.count("step.shared_env")
                else:
                    res = f(st["src"], {"references": {"SEED": {"title": "s", "href": "/seeded", "map": [0, 1]}}})
                if st.get("mutate") and isinstance(res, list) and res:
                    if record:
                        ctx.count("step.mutate_result")
                    # the caller owns what a parse returned: edit every token in place (attrs, meta, map, children)
                    for t in list(walk_tokens(res)):
                        t.attrs["data-x"] = "1"
                        for k2 in list(t.attrs):
                            if isinstance(t.attrs[k2], str):
                                t.attrs[k2] += "!"
                        t.meta["k"] = 1
                        if t.map:
                            t.map[0] += 100
                        if t.children:
                            t.children.append(copy.copy(t.children[0]))
                    sh = shared.get(i)
                    if sh and sh.get("references"):
                        for v in sh["references"].values():
                            v["title"] = "MUT"
                            break
            except Exception:
                if record:
                    ctx.count("step.raised")
        elif k == "set":
            # install options through the public set(): from another instance's options object, or from a dict the caller keeps
            src_i = st["from"] % len(insts)
            snap = {kk: (vv if not isinstance(vv, list) else list(vv)) for kk, vv in dict(insts[src_i].options).items()}
            if st["how"] == "options_object":
                md.set(insts[src_i].options)
            elif st["how"] == "shared_dict":
                shared.setdefault("dicts", {}).setdefault(st["name"], dict(snap))
                snap = dict(shared["dicts"][st["name"]])
                md.set(shared["dicts"][st["name"]])
            else:
                md.set(dict(snap))
            cfg[i].append({"k": "set_snapshot", "opts": snap})
        elif k == "badcall":
            for bad in (lambda: md.parse(123), lambda: md.enable("nope"), lambda: md.render("x", []), lambda: md.configure("nosuch"),
                        lambda: md.disable(["emphasis", "nope2"])):
                try:
                    bad()
                except (TypeError, ValueError, KeyError):
                    pass
            # the last one has a documented prefix effect (emphasis disabled): that is configuration
            cfg[i].append({"k": "disable", "names": ["emphasis"]})
        else:
            apply_config(md, st)
            cfg[i].append(st)
    return insts, cfg


def walk_tokens(ts):
    for t in ts:
        yield t
        if t.children:
            yield from walk_tokens(t.children)


def build_twin(cfgsteps):
    twin = make_instance(cfgsteps[0])
    for st in cfgsteps[1:]:
        apply_config(twin, st)
    return twin


def probe_pair(ctx, md, twin, record=True):
    for x in PROBES:
        try:
            h1, h2 = md.render(x), twin.render(x)
        except Exception as e:
            # both sides are configured alike: an exception must occur on both or neither
            try:
                twin.render(x)
                md.render(x)
            except Exception:
                continue
            return "used-vs-fresh:exception", f"probe {x!r}: only one side raised {type(e).__name__}"
        if record:
            ctx.count("probe.used_vs_twin")
        if h1 != h2:
            return "used-vs-fresh:html", f"probe {x!r}: used instance renders {h1!r}, fresh identically configured instance {h2!r}"
        e1, e2, e3 = {}, {}, {}
        t1, t2 = md.parse(x, e1), twin.parse(x, e2)
        d = first_diff(stream(t1), stream(t2))
        if d:
            return "used-vs-fresh:tokens", f"probe {x!r}: {d}"
        if e1 != e2:
            return "used-vs-fresh:env", f"probe {x!r}: env {e1!r} vs {e2!r}"
        d = first_diff(stream(md.parse(x)), stream(t1))
        if d:
            return "env-none-vs-empty", f"probe {x!r}: env omitted vs {{}}: {d}"
    return None


_pristine = None


def panel_results(n_probes=None, n_conf=None):
    from markdown_it import MarkdownIt
    out = []
    for p, o in PANEL[:n_conf]:
        md = MarkdownIt(p, copy.deepcopy(o))
        out.append([md.render(x) for x in PROBES[:n_probes]])
    return out


def fingerprint(full=False):
    import markdown_it.main as M
    from markdown_it import presets
    from markdown_it.renderer import RendererHTML
    from markdown_it.token import Token
    parts = [repr(M._PRESETS), repr(presets.commonmark.make()), repr(presets.zero.make()), repr(presets.default.make()), repr(presets.gfm_like.make()),
             repr(sorted(k for k in vars(RendererHTML) if not k.startswith("__"))), repr(Token("x", "", 0))]
    if full:
        from markdown_it.common import entities, html_blocks
        parts.append(repr(len(entities.entities)) + repr(sorted(entities.entities.items())[:50]))
        parts.append(repr(html_blocks.block_names))
        from markdown_it import parser_block, parser_core, parser_inline
        parts.append(repr([r[0] for r in parser_block._rules] + [r[0] for r in parser_inline._rules] + [r[0] for r in parser_core._rules]))
    return hashlib.sha1("\x00".join(parts).encode("utf8", "backslashreplace")).hexdigest()


def gen_history(rng):
    steps = []
    n = rng.randint(5, 60)
    ninst = 0
    for s in range(n):
        k = rng.choice(["new", "parse", "parse", "render", "render", "parseInline", "renderInline", "enable", "disable", "opt_item", "opt_attr", "rrule",
                        "use", "configure", "badcall", "parse", "set", "churn", "churn"])
        if ninst == 0 or (k == "new" and ninst < 3):
            p = rng.choice(["commonmark", "js-default", "zero", "gfm-like"])
            o = copy.deepcopy(rng.choice([{}, {"typographer": True}, {"html": False}, {"quotes": ["<", ">", "(", ")"], "typographer": True},
                                          {"inline_definitions": True}, {"store_labels": True}, {"breaks": True, "xhtmlOut": False}]))
            if p == "gfm-like":
                o["linkify"] = False
            steps.append({"k": "new", "how": rng.choice(["name", "name", "dict"]), "preset": p, "opts": o})
            ninst += 1
            continue
        if k == "new":
            k = "parse"
        i = rng.randrange(3)
        if k in ("parse", "render", "parseInline", "renderInline"):
            src = gen.strip_surrogates(gen.any_doc(rng))[:1500] + rng.choice(["", "\n\n[r]: /leak\n", "\n\n[R]: /leak2 'x'\n\n[leak]: /l3\n", "\n[x]: <y>\n"])
            if rng.random() < 0.2:
                src = rng.choice(PROBES)   # the very documents probed later (memo caches keyed on content would be warm)
            steps.append({"k": k, "i": i, "src": src, "env": rng.choice(["none", "none", "fresh", "shared", "seeded"]), "mutate": rng.random() < 0.2})
        elif k in ("enable", "disable"):
            steps.append({"k": k, "i": i, "names": rng.sample(RULES, rng.randint(1, 3))})
        elif k in ("opt_item", "opt_attr"):
            key, val = rng.choice(OPTS)
            steps.append({"k": k, "i": i, "key": key, "val": val})
        elif k == "rrule":
            steps.append({"k": k, "i": i, "name": rng.choice(["hr", "text"])})
        elif k == "use":
            steps.append({"k": k, "i": i, "tag": rng.choice(["P", "Q"]) + str(s)})
        elif k == "configure":
            steps.append({"k": k, "i": i, "preset": rng.choice(["commonmark", "js-default", "zero"]), "opts": rng.choice([{}, {"typographer": True}, {"html": False}])})
        elif k == "churn":
            # option churn around renders of the probe documents: set X, render, set Y (content-keyed memo caches would go stale)
            key, v1, v2 = rng.choice([("highlight", "hl_a", "hl_b"), ("highlight", "hl_b", None), ("highlight", "hl_a", None), ("langPrefix", "l-", "m-"),
                                      ("quotes", "«»‹›", ["a", "b", "c", "d"]), ("maxNesting", 3, 40), ("breaks", True, False), ("xhtmlOut", True, False)])
            how = rng.choice(["opt_item", "opt_attr"])
            steps.append({"k": how, "i": i, "key": key, "val": v1})
            for _ in range(rng.randint(1, 3)):
                steps.append({"k": "render", "i": i, "src": rng.choice(PROBES), "env": "none", "mutate": False})
            steps.append({"k": rng.choice(["opt_item", "opt_attr"]), "i": i, "key": key, "val": v2})
        elif k == "set":
            steps.append({"k": "set", "i": i, "from": rng.randrange(3), "how": rng.choice(["options_object", "shared_dict", "copy"]), "name": rng.choice("xy")})
        else:
            steps.append({"k": "badcall", "i": i})
    return steps


def check_history(ctx, steps, record=True):
    """returns (key, msg) or None"""
    try:
        insts, cfg = run_history(ctx, steps, record)
    except Exception as e:
        return None
    for md, c in zip(insts, cfg):
        try:
            twin = build_twin(c)
        except Exception:
            continue
        r = probe_pair(ctx, md, twin, record)
        if r:
            return r
    # a fresh instance in this (now used) process vs the pristine reference
    small = panel_results(4, 5)
    if record:
        ctx.count("probe.pristine_panel")
    for j, res in enumerate(small):
        if res != [_pristine[j][q] for q in range(4)]:
            return "fresh-vs-pristine", f"fresh {PANEL[j]} instance no longer renders the probes as it did before the history: {res!r}"[:600]
    return None


def init_pristine():
    global _pristine
    if _pristine is None:
        _pristine = panel_results()


_done = []   # histories already executed in this process (state may carry over between them: that is the point)


def check_case(ctx, case):
    init_pristine()
    if "histories" in case:
        for h in case["histories"]:
            check_case(ctx, {"steps": h})
        return True
    ctx.count("evaluations")
    ctx.current = {"steps": "(history)"}
    steps = case["steps"]
    r = check_history(ctx, steps)
    if r is None:
        _done.append(steps)
        return True
    prior = list(_done)
    if prior and not ctx.replaying:
        # the process is no longer pristine: keep what ran before so that the replay reproduces cross-history carry-over
        show = [{k: (v[:60] if isinstance(v, str) else v) for k, v in s.items()} for s in steps][:12]
        ctx.violation(r[0], f"{r[1]} | after {len(prior)} earlier histories in this process; last history={show}"[:1800], {"histories": prior[-300:] + [steps]})
        return False
    if not ctx.replaying and not r[0].startswith("fresh-vs-pristine"):
        i = 0
        while i < len(steps):
            cand = steps[:i] + steps[i + 1:]
            rr = check_history(ctx, cand, record=False) if cand and cand[0]["k"] == "new" else None
            if rr and rr[0] == r[0]:
                steps = cand
            else:
                i += 1
        r = check_history(ctx, steps, record=False) or r
    show = [{k: (v[:60] if isinstance(v, str) else v) for k, v in s.items()} for s in steps]
    ctx.violation(r[0], f"{r[1]} | history={show}"[:1800], {"steps": steps})
    return False


def replay(ctx, case):
    if case.get("kind") == "envobs":
        env_case(ctx, case)
    elif case.get("kind") == "order":
        order_case(ctx, case)
    else:
        check_case(ctx, case)


# ---- order independence across processes: memos that live for the whole process and are keyed too coarsely -------------------------------
def order_docs(part, nparts):
    """(panel index, source) pairs likely to collide in a badly keyed process-wide memo: character references whose names differ in
    case only or whose digits are spelled differently, in text and in titles/destinations/info strings; characters that agree in
    their low 16 bits, in their lower-cased or case-folded form, next to delimiter runs and quotes; labels that differ in case"""
    import unicodedata
    from markdown_it.common.entities import entities
    groups = {}
    for k in entities:
        groups.setdefault(k.lower(), []).append(k)
    twins = sorted(v for v in groups.values() if len(v) > 1)
    sets = []   # documents that belong together stay in the same part (the same pair of processes)
    frames = ["&{e}; x", '[t](/u "&{e};")', "[t](/&{e};)", "```&{e};\nc\n```", '[r]: /u "&{e};"\n\n[r]', "![&{e};](s '&{e};')"]
    for gi, g in enumerate(twins):
        sets.append([(0, frames[(gi + k) % len(frames)].replace("{e}", name)) for k in (0, 1) for name in g])
    nums = ["#xD800", "#0", "#150", "#x41", "#X41", "#65", "#065", "#x110000", "#xFFFE", "#1114111", "#x1F600", "#128512", "#x00041", "#x2D800", "#xD7FF", "#xE000"]
    for num in nums:
        sets.append([(0, f.replace("{e}", num)) for f in frames])
    sets.append([(0, frames[0].replace("{e}", n)) for n in nums] + [(0, frames[1].replace("{e}", n)) for n in nums])
    punct = [c for c in range(0x80, 0x10000) if unicodedata.category(chr(c)).startswith("P")]
    for i, c in enumerate(punct[::7]):
        grp = []
        for twin in (c, c + 0x10000, c + 0x20000):
            ch = chr(twin)
            grp.append((1, f"*a{ch}* b {ch}*c* d*{ch}e* ~~{ch}f~~ _{ch}g_ h{ch}_i_"))
            grp.append((5, f"\"{ch}q\" '{ch}' x{ch}'s"))
        sets.append(grp)
    for a, b in [("ǅ", "ǆ"), ("ß", "SS"), ("İ", "i̇"), ("K", "k"), ("ſ", "s"), ("ﬁ", "fi"), ("Σ", "ς")]:
        sets.append([(0, f"[{a}]: /1\n\n[{b}] [{a}]"), (0, f"[{b}]: /2\n\n[{a}] [{b}]")])
    return [d for i, grp in enumerate(sets) if i % nparts == part for d in grp]


def render_list(docs):
    from markdown_it import MarkdownIt
    out = []
    for pi, src in docs:
        try:
            out.append(MarkdownIt(PANEL[pi][0], dict(PANEL[pi][1])).render(src))
        except Exception as e:
            out.append(f"EXC {type(e).__name__}: {e}")
    return out


def order_case(ctx, case):
    """every document renders the same in this process (documents in list order) and in a fresh interpreter (reverse order)"""
    import json
    import subprocess
    ctx.count("evaluations")
    ctx.current = case
    docs = order_docs(case["part"], case["nparts"])
    here = render_list(docs)
    code = ("import json,sys; from vf.mon.c12 import order_docs, render_list; d = order_docs(%d, %d); r = render_list(d[::-1]); "
            "sys.stdout.write(json.dumps(r[::-1]))" % (case["part"], case["nparts"]))
    try:
        pr = subprocess.run([sys.executable, "-c", code], capture_output=True, text=True, timeout=600, cwd=os.path.dirname(os.path.dirname(os.path.dirname(os.path.abspath(__file__)))))
        there = json.loads(pr.stdout)
    except Exception as e:
        ctx.count("order.subprocess_failed")
        ctx.info["order_subprocess_error"] = f"{type(e).__name__}: {e}"[:300]
        return
    ctx.count("order.documents", len(docs))
    ctx.nontrivial("order", case["part"], case["nparts"])
    for (pi, src), a, b in zip(docs, here, there):
        if a != b:
            ctx.violation("result-depends-on-process-history", f"document {src!r} ({PANEL[pi]}) renders {a[:200]!r} in a process that handled the list in order, {b[:200]!r} in a fresh process that handled it in reverse order", dict(case, kind="order"))
            return


def env_observer(preset, opts):
    """instance with a plug-in that hands data from the parse to the renderer through env (core rule writes, render rules read)"""
    from markdown_it import MarkdownIt
    md = MarkdownIt(preset, dict(opts))

    def count_links(state):
        state.env["vf_links"] = sum(1 for t in state.tokens if t.type == "inline" for c in (t.children or []) if c.type == "link_open")
    md.core.ruler.push("vf_count_links", count_links)

    def para(self, tokens, idx, options, env):
        return self.renderToken(tokens, idx, options, env) + f"<!--refs={sorted(env.get('references', {}))} links={env.get('vf_links')}-->"

    def text(self, tokens, idx, options, env):
        return f"{tokens[idx].content}" .replace("<", "&lt;") + (f"{{{env.get('vf_links')}}}" if "vf_links" in env else "{no-env}")
    md.add_render_rule("paragraph_open", para)
    md.add_render_rule("text", text)
    return md


def env_case(ctx, case):
    """the env handed to the render rules is the one the parse filled, whether the caller passed one or not"""
    ctx.count("evaluations")
    ctx.current = case
    preset, opts = PANEL[case["panel"]]
    src = case["src"]
    md = env_observer(preset, opts)
    try:
        a, b = md.render(src), md.render(src, {})
        ia, ib = md.renderInline(src), md.renderInline(src, {})
    except Exception:
        ctx.count("skipped.exception")
        return
    ctx.count("env_observer.renders")
    if "refs=[]" not in a or "links=0" not in a:
        ctx.count("env_observer.env_nonempty")
        ctx.nontrivial("envobs", case["panel"], src)
    if a != b:
        ctx.violation("env-none-vs-empty:render", f"render(src) {a[:300]!r} != render(src, {{}}) {b[:300]!r} with render rules that read env | src={src!r} panel={PANEL[case['panel']]}", dict(case, kind="envobs"))
    elif ia != ib:
        ctx.violation("env-none-vs-empty:renderInline", f"renderInline(src) {ia[:300]!r} != renderInline(src, {{}}) {ib[:300]!r} with render rules that read env | src={src!r} panel={PANEL[case['panel']]}", dict(case, kind="envobs"))


def run(ctx):
    rng = ctx.rng
    order_case(ctx, {"part": ctx.shard, "nparts": ctx.nshards})   # first: this process has no history yet
    init_pristine()
    k = 0
    for pi in range(len(PANEL)):
        for src in PROBES + ["[a](u) [b][r] <http://c.d>\n\n[r]: /x\n", "[a](u) *b* [c](v)", "plain", "[r]\n\n[r]: /u 't'\n\n> [q]\n>\n> [q]: /v\n"]:
            k += 1
            if ctx.mine(k):
                env_case(ctx, {"panel": pi, "src": src})
    fp0, fpfull0 = fingerprint(), fingerprint(True)
    n = ctx.scale(12000, 400000)
    window = []
    for k in range(n):
        steps = gen_history(rng)
        ctx.count("histories")
        ok = check_case(ctx, {"steps": steps})
        kinds = {s["k"] for s in steps}
        if sum(1 for s in steps if s["k"] == "new") >= 2 and any(s["k"] == "parse" and s["env"] == "none" and "]:" in s["src"] for s in steps) and kinds & {"enable", "disable", "opt_item", "opt_attr", "rrule", "use"}:
            ctx.nontrivial(repr(steps))
            ctx.count("nontrivial")
        window.append(steps)
        ctx.count("fingerprints")
        fp = fingerprint()
        full_now = (k % 50 == 49) or fp != fp0
        if fp != fp0:
            ctx.count("fingerprint_changes")
        if full_now:
            if fingerprint(True) != fpfull0:
                ctx.count("fingerprint_changes_full")
            res = panel_results()
            ctx.count("probe.pristine_panel_full")
            if res != _pristine:
                j = next(i for i in range(len(res)) if res[i] != _pristine[i])
                ctx.violation("fresh-vs-pristine", f"after {len(window)} histories a fresh {PANEL[j]} instance renders the probe panel differently than in the pristine process",
                              {"steps": [s for h in window for s in h]})
                break
            window = []
        if not ok and ctx.vcount and sum(ctx.vcount.values()) > 20:
            break
        if k % 499 == 0:
            ctx.sample([{kk: (v[:40] if isinstance(v, str) else v) for kk, v in s.items()} for s in steps[:10]])


@selftest
def _selftest():
    from vf.worker import Ctx
    ctx = Ctx("C12", "quick", 0, 0, 1)
    init_pristine()
    steps = [{"k": "new", "how": "name", "preset": "commonmark", "opts": {}}, {"k": "parse", "i": 0, "src": "[r]: /leak\n", "env": "none", "mutate": True},
             {"k": "disable", "i": 0, "names": ["emphasis"]}]
    assert check_history(ctx, steps, record=False) is None
    # a leaking env default must be seen
    import markdown_it.main as M
    orig = M.MarkdownIt.parse
    leak = {}

    def bad_parse(self, src, env=None):
        return orig(self, src, leak if env is None else env)
    M.MarkdownIt.parse = bad_parse
    try:
        r = check_history(ctx, steps, record=False)
        assert r is not None, "leaking default env not detected"
    finally:
        M.MarkdownIt.parse = orig
