"""C18 — inline text means the same in every block context; render options are inert."""
from __future__ import annotations

import copy
import re

from vf import conf as C
from vf import gen
from vf import workload as W
from vf.selftests import selftest
from vf.util import first_diff, minimize_text, stream, walk

LEVEL = "exploration"
RULE = (
    "cases: (1) sources that block-parse to one paragraph holding the source (decided on the block parse) x configurations: "
    "parseInline must return one inline token with exactly the paragraph's children and render == '<p>'+renderInline+'</p>\\n'. "
    "(2) one-line trimmed texts t built from inline fragments, embedded in ATX heading, list item, block quote, table cell under "
    "the statement's syntactic guards: the inline token found there must have content t, the paragraph's children, and the HTML "
    "must be the context frame around renderInline(t). (3) any document x preset x random values of the other renderer-only "
    "options: token stream identical with each renderer-only option on/off; breaks=True must render exactly like the same stream "
    "with softbreak tokens (outside image descriptions) retyped to hardbreak under breaks=False; xhtmlOut twins equal after mapping "
    "' />'->'>' on both sides; two sentinel langPrefix values give outputs equal under substitution; a recording highlight callback "
    "receives (token.content, first word of the unescaped info, rest) and its sentinel-wrapped result appears verbatim in place of "
    "the escaped body, returning '' equals no callback. Non-trivial = text with >=2 non-text inline tokens / document with a "
    "fence, a soft break or a void tag; distinct by (conf id, source, relation)."
    " Embedding contexts include the text after / next to an inline block full of unfinished constructs."
)
ASSUMPTIONS = ["expected highlight language = first whitespace-separated word of markdown_it.common.utils.unescapeAll(info).strip() (unescaping itself is C09's business)"]

LEFTOVERS = "see www.a.bc </a> <a href=x> http://u.v *s **t [w `k \"q 'r ~~z <b"
CTXS = {
    "head": ("## {}", "<h2>{}</h2>\n"),
    "li": ("- {}", "<ul>\n<li>{}</li>\n</ul>\n"),
    "ol": ("7. {}", '<ol start="7">\n<li>{}</li>\n</ol>\n'),
    "bq": ("> {}", "<blockquote>\n<p>{}</p>\n</blockquote>\n"),
    "cell": ("| {} |\n|---|\n", "<table>\n<thead>\n<tr>\n<th>{}</th>\n</tr>\n</thead>\n</table>\n"),
    "li_bq": ("- > {}", "<ul>\n<li>\n<blockquote>\n<p>{}</p>\n</blockquote>\n</li>\n</ul>\n"),
    # the same text after / next to another inline block full of unfinished business (a stray closing tag, an unclosed one, open
    # emphasis, bracket, backtick, quote): nothing of it may carry over into the next inline block
    # the same text in two inline blocks of one document (anything remembered per content must not be shared between them)
    "twice_items": ("- {0}\n- {0}", "<ul>\n<li>{0}</li>\n<li>{0}</li>\n</ul>\n", "twice"),
    "twice_cells": ("| {0} | {0} |\n|---|---|\n| {0} | {0} |\n", "<table>\n<thead>\n<tr>\n<th>{0}</th>\n<th>{0}</th>\n</tr>\n</thead>\n<tbody>\n<tr>\n<td>{0}</td>\n<td>{0}</td>\n</tr>\n</tbody>\n</table>\n", "twice"),
    "twice_paras": ("{0}\n\n{0}\n\n> {0}", "<p>{0}</p>\n<p>{0}</p>\n<blockquote>\n<p>{0}</p>\n</blockquote>\n", "twice"),
    "sib_para": (LEFTOVERS + "\n\n{}", "<p>{}</p>\n", "suffix"),
    "sib_head": (LEFTOVERS + "\n\n## {}", "<h2>{}</h2>\n", "suffix"),
    "sib_item": ("- " + LEFTOVERS + "\n- {}", "<li>{}</li>\n</ul>\n", "suffix"),
    "sib_cell": ("| " + LEFTOVERS.replace("`", "") + " | {} |\n|---|---|\n", "<th>{}</th>\n</tr>\n</thead>\n</table>\n", "suffix"),
}
TCONFS = [{"preset": "commonmark", "enable": ["table", "strikethrough"]}, {"preset": "js-default", "options": {"xhtmlOut": False}},
          {"preset": "js-default", "options": {"typographer": True}}, {"preset": "gfm-like", "stub_linkify": True}]


def floors(tier):
    q = tier == "quick"
    f = {"single.paragraphs": 20000 if q else 500000, "embed.texts": 10000, "opt.breaks": 10000, "opt.xhtml": 10000, "opt.langprefix": 10000, "opt.highlight": 10000,
         "opt.highlight_fences_with_info": 2000, "opt.softbreaks_retyped": 5000, "opt.void_tags": 5000, "opt.stream_twins": 40000}
    for c in CTXS:
        f["embed." + c] = 3000
    return f


def sd(ts):
    return stream(ts)


# ---- (1) ---------------------------------------------------------------------------------------------------------
def single_case(ctx, case, count=True):
    md = W.get_md(case["conf"])
    src = case["src"]
    try:
        toks = md.parse(src)
    except Exception:
        return None
    if not (len(toks) == 3 and toks[0].type == "paragraph_open" and toks[1].type == "inline" and toks[1].content == src):
        return None
    if count:
        ctx.count("single.paragraphs")
        if sum(1 for c in walk(toks[1].children) if c.type != "text") >= 2:
            ctx.nontrivial("single", C.conf_id(case["conf"]), src)
    try:
        pi = md.parseInline(src)
        h, hi = md.render(src), md.renderInline(src)
    except Exception as e:
        return "inline-mode-raises", f"{type(e).__name__}: {e}"
    if not (len(pi) == 1 and pi[0].type == "inline"):
        return "parseInline-shape", f"{[t.type for t in pi]}"
    if pi[0].content != src:
        return "parseInline-content", f"{pi[0].content!r} != {src!r}"
    d = first_diff(sd(pi[0].children), sd(toks[1].children))
    if d:
        return "parseInline-children-differ", d
    if h != "<p>" + hi + "</p>\n":
        return "renderInline-differs", f"render={h!r} renderInline={hi!r}"
    return "ok"


# ---- (2) -----------------------------------------------------------------------------------------------------------
def embed_case(ctx, case, count=True):
    md = W.get_md(case["conf"])
    t, cn = case["t"], case["context"]
    try:
        base = md.parse(t)
    except Exception:
        return None
    if not (len(base) == 3 and base[0].type == "paragraph_open" and base[1].content == t):
        return None
    if cn in ("li", "ol", "bq", "li_bq", "sib_item", "twice_items", "twice_paras") and not t[0].isalnum():
        return None
    if cn in ("head", "sib_head") and t.endswith("#"):
        return None
    if cn == "sib_para" and not t[0].isalnum():
        return None   # (must not be read as a block start or a setext underline after the first paragraph)
    if cn in ("cell", "sib_cell", "twice_cells") and (re.search(r"[|\\`]", t) or "table" not in md.get_active_rules()["block"]):
        return None
    tm, frame = CTXS[cn][:2]
    suffix = len(CTXS[cn]) > 2 and CTXS[cn][2] == "suffix"
    twice = len(CTXS[cn]) > 2 and CTXS[cn][2] == "twice"
    if twice and ("{" in t or "}" in t):
        return None
    src = tm.format(t)
    try:
        toks = md.parse(src)
        html = md.render(src)
        refh = md.renderInline(t)
    except Exception:
        return None
    if count:
        ctx.count("embed." + cn)
        if sum(1 for c in walk(base[1].children) if c.type != "text") >= 2:
            ctx.nontrivial("embed", cn, C.conf_id(case["conf"]), t)
    inl = [x for x in toks if x.type == "inline"]
    if twice:
        for x in inl:
            if x.content != t:
                return f"embed:{cn}:content", f"inline tokens {[y.content for y in inl]!r} for text {t!r} in {src!r}"
            d = first_diff(sd(x.children), sd(base[1].children))
            if d:
                return f"embed:{cn}:children-differ", d
        if len(inl) < 2:
            return f"embed:{cn}:content", f"{len(inl)} inline tokens for {src!r}"
        inl = inl[:1]
    if suffix:
        inl = inl[-1:]
    if len(inl) != 1 or inl[0].content != t:
        return f"embed:{cn}:content", f"inline tokens {[x.content for x in inl]!r} for text {t!r} in {src!r}"
    d = first_diff(sd(inl[0].children), sd(base[1].children))
    if d:
        return f"embed:{cn}:children-differ", d
    want = frame.format(refh)
    if md.options.get("xhtmlOut") is False:
        pass
    if suffix and html.endswith(want):
        return "ok"
    if html != want:
        return f"embed:{cn}:html-differs", f"{html[-len(want) - 40:] if suffix else html!r} != {want!r}"
    return "ok"


# ---- (3) -------------------------------------------------------------------------------------------------------------
S1, S2 = "\ue000HL", "\ue001LH"
P1, P2 = "\ue002p1-", "\ue003p2-"


def build_opts(conf, **over):
    c = copy.deepcopy(conf)
    o = dict(c.get("options") or {})
    o.update(over)
    c["options"] = o
    return c


def option_case(ctx, case, count=True):
    conf, src, rel, other = case["conf"], case["src"], case["rel"], case["other"]
    if any(s in src for s in (S1, S2, P1, P2)):
        return None

    def mk(**over):
        o = dict(other)
        o.update(over)
        hl = o.pop("hl", None)
        md = C.build(build_opts(conf, **o))
        calls = []
        if hl == "sentinel":
            def f(content, lang, attrs):
                calls.append((content, lang, attrs))
                return S1 + content.replace("&", "&amp;").replace("<", "&lt;").replace(">", "&gt;").replace('"', "&quot;") + S2
            md.options["highlight"] = f
        elif hl == "empty":
            md.options["highlight"] = lambda c, l, a: ""
        return md, calls

    def pr(md):
        env = {}
        toks = md.parse(src, env)
        return toks, md.renderer.render(toks, md.options, env), env
    try:
        if rel == "breaks":
            m0, _ = mk(breaks=False)
            m1, _ = mk(breaks=True)
            t0, h0, e0 = pr(m0)
            t1, h1, e1 = pr(m1)
            d = first_diff(sd(t0), sd(t1))
            if d:
                return "option-changes-tokens:breaks", d
            t2 = copy.deepcopy(t0)
            n = 0
            for t in t2:
                for c in (t.children or []):
                    if c.type == "softbreak":
                        c.type = "hardbreak"
                        n += 1
            want = m0.renderer.render(t2, m0.options, e0)
            if count:
                ctx.count("opt.breaks")
                ctx.count("opt.softbreaks_retyped", n)
                if n:
                    ctx.nontrivial("breaks", C.conf_id(conf), src)
            if h1 != want:
                return "breaks-not-local", f"breaks=True renders {h1[:240]!r}, the same stream with softbreak->hardbreak renders {want[:240]!r}"
        elif rel == "xhtml":
            m0, _ = mk(xhtmlOut=False)
            m1, _ = mk(xhtmlOut=True)
            t0, h0, _e = pr(m0)
            t1, h1, _e = pr(m1)
            d = first_diff(sd(t0), sd(t1))
            if d:
                return "option-changes-tokens:xhtmlOut", d
            if count:
                ctx.count("opt.xhtml")
                nv = h1.count(" />")
                ctx.count("opt.void_tags", nv)
                if nv:
                    ctx.nontrivial("xhtml", C.conf_id(conf), src)
            if h0.replace(" />", ">") != h1.replace(" />", ">"):
                return "xhtmlOut-not-local", f"{h0[:240]!r} vs {h1[:240]!r}"
            if not m0.options.get("html") and " />" in h0:
                return "xhtmlOut-off-but-self-closing", f"{h0[:240]!r}"
        elif rel == "langprefix":
            m0, _ = mk(langPrefix=P1)
            m1, _ = mk(langPrefix=P2)
            t0, h0, _e = pr(m0)
            t1, h1, _e = pr(m1)
            d = first_diff(sd(t0), sd(t1))
            if d:
                return "option-changes-tokens:langPrefix", d
            if count:
                ctx.count("opt.langprefix")
                if P1 in h0:
                    ctx.nontrivial("langprefix", C.conf_id(conf), src)
            if h0.replace(P1, P2) != h1:
                return "langPrefix-not-local", f"{h0[:240]!r} vs {h1[:240]!r}"
            if P1 in h0 and any(t.type == "fence" and not t.info.strip() for t in t0) and h0.count(P1) > sum(1 for t in walk(t0) if t.type == "fence" and t.info.strip()):
                return "langPrefix-on-fence-without-info", f"{h0[:240]!r}"
        else:
            from markdown_it.common.utils import unescapeAll
            m0, _ = mk(hl=None)
            m1, calls = mk(hl="sentinel")
            m2, _ = mk(hl="empty")
            t0, h0, _e = pr(m0)
            t1, h1, _e = pr(m1)
            t2, h2, _e = pr(m2)
            d = first_diff(sd(t0), sd(t1))
            if d:
                return "option-changes-tokens:highlight", d
            fences = [t for t in walk(t0) if t.type == "fence"]
            if count:
                ctx.count("opt.highlight")
                wi = sum(1 for t in fences if t.info.strip())
                ctx.count("opt.highlight_fences_with_info", wi)
                if fences:
                    ctx.nontrivial("highlight", C.conf_id(conf), src)
            if len(calls) != len(fences):
                return "highlight-call-count", f"{len(calls)} calls for {len(fences)} fences"
            for (content, lang, attrs), t in zip(calls, fences):
                info = unescapeAll(t.info).strip() if t.info else ""
                parts = info.split(maxsplit=1)
                wl = parts[0] if parts else ""
                wa = parts[1] if len(parts) == 2 else ""
                if content != t.content or lang != wl or attrs != wa:
                    return "highlight-arguments", f"callback got {(content, lang, attrs)!r}, token content={t.content!r} info={t.info!r}"
            if h1.replace(S1, "").replace(S2, "") != h0:
                return "highlight-not-local", f"{h1[:240]!r} vs {h0[:240]!r}"
            if h2 != h0:
                return "highlight-empty-differs", f"{h2[:240]!r} vs {h0[:240]!r}"
        if count:
            ctx.count("opt.stream_twins")
    except Exception as e:
        if count:
            ctx.count("skipped.exception")
        return None
    return "ok"


def run_case(ctx, case, count=True):
    return {"single": single_case, "embed": embed_case, "option": option_case}[case["kind"]](ctx, case, count)


def check_case(ctx, case, minimize=True):
    ctx.count("evaluations")
    ctx.current = case
    r = run_case(ctx, case)
    if r is None or r == "ok":
        return
    key, msg = r
    field = "t" if case["kind"] == "embed" else "src"
    if minimize and not ctx.replaying:
        def fails(s):
            rr = run_case(ctx, dict(case, **{field: s}), False)
            return isinstance(rr, tuple) and rr[0] == key
        small = minimize_text(case[field], fails, 3.0)
        case = dict(case, **{field: small})
        rr = run_case(ctx, case, False)
        if isinstance(rr, tuple):
            msg = rr[1]
    ctx.violation(key, f"{msg} | case={case}", case)


def replay(ctx, case):
    check_case(ctx, case, minimize=False)


FRAGS = ["![a&amp;b](u)", "![x\\*y z](s)", "![p &#35; q *r*](s 't')", "[l &copy; m](u)", "*e*", "**s**", "_u_", "~~d~~", "`c`", "`` a`b ``", "[l](u)", "[l](u \"t\")", "![i](s)", "![a *b*](s 't')", "&amp;", "&#35;", "&copy;", "\\*", "\\\\", "<b>", "</b>",
         "<!-- c -->", "<http://a.b>", "<m@n.o>", "x", "y z", "é", "1", "a_b_c", "\"q\"", "'s'", "--", "...", "(c)", "http://x.y/z", "www.a.bc", "[r]", "!", "(", ")", "[", "]",
         "*", "_", "`", "~", "|", "#", "\\", "&", "<", ">", "+", "=", ":",
         # characters that str.splitlines()/str.isspace() single out but Markdown treats as ordinary text
         "a" + "[" * 19 + "foo](/u)", "b" + "![" * 20 + "i](s)" + "](s)" * 19, "c " + "[" * 99 + "z](/v)", "d" + "[" * 18 + "w](/q)" + "](/q)" * 17,
         "a\x0cb", "x\u2028y", "p\x85q", "\x1c", "m\x0bn", "\u2029", "\x1e", "\u200b", "\xa0", "\u3000z"]


def gen_t(rng):
    parts = [rng.choice(FRAGS) for _ in range(rng.randint(1, 7))]
    t = (" " if rng.random() < 0.7 else "").join(parts) if rng.random() < 0.5 else "".join(p + rng.choice(["", " "]) for p in parts)
    if rng.random() < 0.6:
        t = rng.choice(["a", "B", "7", "x1 "]) + t
    return t.strip()


def run(ctx):
    rng = ctx.rng
    # (1)
    for k in range(ctx.scale(60000, 1500000)):
        r = rng.random()
        if r < 0.5:
            src = gen_t(rng)
            if rng.random() < 0.3:
                src += "\n" + gen_t(rng)
        elif r < 0.8:
            src = gen.inline(rng, rng.randint(1, 10)).strip()
        else:
            src = gen.strip_surrogates(gen.soup(rng, 3)).strip()
        if not src:
            continue
        conf = rng.choice(W.PANEL) if rng.random() < 0.6 else C.sample(rng)
        check_case(ctx, {"kind": "single", "conf": conf, "src": src})
    # (2)
    for k in range(ctx.scale(22000, 1000000)):
        t = gen_t(rng).replace("\t", " ")
        if not t or "\n" in t:
            continue
        conf = rng.choice(TCONFS)
        ctx.count("embed.texts")
        for cn in CTXS:
            check_case(ctx, {"kind": "embed", "conf": conf, "context": cn, "t": t})
        if k % 1999 == 0:
            ctx.sample({"kind": "embed", "t": t, "conf": conf})
    # (3)
    extra = ["```py x=1\ncode <&>\n```\n", "~~~ a&amp;b \\*c\n~~~\n", "a\nb  \nc\\\nd\n\n![x\ny](s)\n", "---\n\n![i](s)\n\nl1\nl2\n", "```\nplain\n```\n\n    ind\n",
             "- ```js\n  x\n  ```\n> ~~~ q\n> y\n", "```js\tlinenos\nx\n```\n", "~~~py\xa0x\n~~~\n", "``` c\u2003d\ne\n```\n", "```\tjs  \t k\nv\n```\n", "``` &#35;lang&nbsp;rest more\nz\n```\n", "```\tt\n```\n"]
    for k in range(ctx.scale(50000, 1500000)):
        src = rng.choice(extra) + (gen.any_doc(rng) if rng.random() < 0.5 else "") if rng.random() < 0.45 else gen.any_doc(rng)
        src = gen.strip_surrogates(src)[:3000]
        base = rng.choice([{"preset": "commonmark"}, {"preset": "js-default"}, {"preset": "zero", "enable": ["fence", "newline", "image", "hr"]},
                           {"preset": "commonmark", "options": {"html": False}}, {"preset": "js-default", "options": {"typographer": True}}])
        other = {"breaks": rng.random() < 0.5, "xhtmlOut": rng.random() < 0.5, "langPrefix": rng.choice(["language-", "l-", ""]), "hl": rng.choice([None, None, "sentinel", "empty"])}
        for rel in ("breaks", "xhtml", "langprefix", "highlight"):
            o = dict(other)
            o.pop({"breaks": "breaks", "xhtml": "xhtmlOut", "langprefix": "langPrefix", "highlight": "hl"}[rel])
            check_case(ctx, {"kind": "option", "conf": base, "src": src, "rel": rel, "other": o})


@selftest
def _selftest():
    from vf.worker import Ctx
    ctx = Ctx("C18", "quick", 0, 0, 1)
    assert single_case(ctx, {"conf": {"preset": "commonmark"}, "src": "a *b* `c`"}, False) == "ok"
    assert embed_case(ctx, {"conf": TCONFS[0], "context": "cell", "t": "a *b*"}, False) == "ok"
    for rel in ("breaks", "xhtml", "langprefix", "highlight"):
        assert option_case(ctx, {"conf": {"preset": "commonmark"}, "src": "a\nb\n\n```py z\nc\n```\n\n---\n", "rel": rel, "other": {}}, False) == "ok", rel
