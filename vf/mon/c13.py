"""C13 — concurrent or nested parses on a shared instance do not interfere."""
from __future__ import annotations

import collections
import os
import sys
import threading

from vf import conf as C
from vf.sched import PingPong, Scheduler, discover_shared_writers
from vf.selftests import selftest

LEVEL = "exploration"
RULE = (
    "cases = schedules: (scenario, call pair/triple, k1[, k2]) - thread A runs call 1 on a shared instance and is parked at its "
    "k1-th monitoring event (LINE events of all library code, INSTRUCTION events inside the functions that write shared state, "
    "discovered by a write log), thread B runs call 2 to completion (or is itself parked at k2 while C runs call 3), then the "
    "parked threads resume. Scenarios: fresh instance / instance just reconfigured by enable+disable x {render, parse, "
    "parseInline} x document pairs with distinct envs x presets. Oracle: every call returns exactly its solo result (tokens/"
    "HTML/env), raises nothing and stays within its step budget. Plus nested re-entry (core plug-in rule, render rule, highlight "
    "callback calling md.render/parseInline on the same instance, compared with the same plug-ins calling a separate identical "
    "instance) and a free-running stress (8-16 threads released by a barrier onto fresh instances, switch interval 1e-6, overlap "
    "of first-use compile windows measured). Non-trivial = schedule in which B really executed library code while A held a "
    "frame inside the library; distinct by (scenario, calls, k1, k2)."
    " Re-entry is also driven from a block rule (with two table-budget documents) and from an overridden validateLink, and the outer call is compared with the same plug-in not re-entering."
)
ASSUMPTIONS = [
    "process-wide first-use caches of the dependency mdurl (and re's pattern cache) are warmed before schedules start: a race inside mdurl is not this repository's",
    "pre-emption points: every line of library code, every bytecode inside functions that write attributes of the shared MarkdownIt/Ruler/Parser*/Renderer/OptionsDict objects",
    "configuration is not mutated concurrently (as the property states)",
]
NSHARDS = {"quick": 16, "thorough": 32}
TIMEOUT = {"quick": 900, "thorough": 14000}
WATCHDOG = {"quick": 850, "thorough": 13900}
STALL_S = 200

DOCS = [
    ("A", "# h\n\n- a *b* [c](d)\n\n> q `c`\n\n[r]: /ra\n\n[r]\n"),
    ("B", "para **x** [r]\n\n1. one\n2. two\n\n[r]: /rb 'tb'\n"),
    ("C", "```py\ncode\n```\n\n<div>\nh\n</div>\n\n![i](s)\n"),
    ("T", "|a|b|\n|-|-|\n|c|~~d~~|\n\n\"q\" -- (c)\n"),
    ("I", "*e* `c` [l](u) <http://a.b> &amp; \\* ![i](s \"t\")"),
    # pairs aimed at per-call scratch state of the inline machinery (delimiter bookkeeping, skip caches): same shapes at the same
    # offsets but different token boundaries, so that state carried over from the other call gives a different answer
    ("E1", "*a* *b* **c** _d_ *e **f** g* ~~h~~ *i*\n"),
    ("E2", "x y z w a* b* c** d_ e* f** g* h~~ i* j_ k*\n"),
    ("L1", "[aa [bb] cc](u) and [dd *e* ff](v) ![gg [hh](i) jj](k)\n"),
    ("L2", "\\[aa `bb] cc](u) and` [dd <e>* ff](v) ![gg `hh](i)` jj](k)\n"),
    # constructs indented by four columns: their reading depends on whether the indented-code rule is active
    ("N", "    # two\n\n    - x\n\n    > q\n\n    ```\n    f\n    ```\n"),
    # a linked image (description parsed by a nested inline parse inside link text) and constructs exactly at / around maxNesting=20
    ("K", "[![alt *e* `c`](img.png)](http://u.v) and [![b](i)](j) [x ![y ![z](1)](2)](3)\n"),
    ("M", "> " * 19 + "a\n\n" + "> " * 20 + "b\n\n" + "[" * 20 + "y" + "](u)" * 20 + "\n\n" + "*a [b " * 10 + "c" + "](u)*" * 10 + "\n"),
    ("U", "[new](http://never.seen/before?x=1) ![n](http://fresh.example/p.png) <http://unseen.example/z>\n"),
]
DOC = dict(DOCS)
SCENARIOS = [
    {"name": "fresh-cm", "conf": {"preset": "commonmark"}, "reconf": False},
    {"name": "fresh-js", "conf": {"preset": "js-default", "options": {"typographer": True}}, "reconf": False},
    {"name": "reconf-cmx", "conf": {"preset": "commonmark"}, "reconf": True},
    {"name": "fresh-zero", "conf": {"preset": "zero"}, "reconf": False},
    {"name": "fresh-nocode", "conf": {"preset": "commonmark", "disable": ["code"]}, "reconf": False},
    # a long-lived shared instance that has already processed several hundred documents with distinct links (bounded caches are full)
    {"name": "used-cm", "conf": {"preset": "commonmark"}, "reconf": False, "used": True},
]
CALLSETS = [
    [("render", "A"), ("render", "B")],
    [("parse", "B"), ("render", "A")],
    [("render", "T"), ("parseInline", "I")],
    [("parseInline", "I"), ("render", "C")],
    [("render", "C"), ("parse", "T")],
    [("render", "E1"), ("render", "E2")],
    [("render", "L1"), ("render", "L2")],
    [("render", "L2"), ("render", "L1")],
    [("render", "A"), ("render", "N")],
    [("render", "A"), ("render", "U")],
    [("render", "K"), ("render", "M")],
    [("render", "M"), ("render", "K")],
]


def callsets_for(sc, quick):
    """which call pairs are swept on which scenario (the two special scenarios get the pairs aimed at them)"""
    if sc["name"] == "fresh-nocode":
        return [CALLSETS[8], [("render", "N"), ("render", "A")]]
    if sc["name"] == "used-cm":
        return [[("render", "A"), ("render", "FLOOD")], CALLSETS[9], [("render", "L1"), ("render", "FLOOD")], [("render", "U"), ("render", "A")]]
    base = CALLSETS[:8]
    if quick and sc["name"] != "fresh-cm":
        return base[:2] + base[5:7]
    return base + CALLSETS[10:12]


def floors(tier):
    q = tier == "quick"
    return {"schedules.single": 3000 if q else 100000, "points.in_shared_write_code": 300 if q else 5000, "b_ran_inside_a": 3000, "points.line": 2000,
            "points.instruction": 300, "shared_writers_discovered": 1, "nested.reentries": 200, "stress.runs": 200, "stress.overlapping_compiles": 1,
            "nested.budget_documents": 2, "nested.link_hook": 50, "schedules.double": 100 if q else 5000, "schedules.pingpong": 1000 if q else 50000, "pingpong.a_parked_in_shared_write_code": 300}


_used = {}


def make_instance(sc):
    if sc.get("used"):
        md = _used.get(sc["name"])
        if md is None:
            md = _used[sc["name"]] = C.build(sc["conf"])
            for i in range(300):
                md.render(f"[l{i}](http://h{i}.example/p{i}?q={i}) ![i{i}](/img/{i}.png) <http://a{i}.example/>\n\n> q{i} `c{i}`\n")
        return md
    md = C.build(sc["conf"])
    if sc["reconf"]:
        md.enable(["table", "strikethrough"])
        md.disable(["hr"])
    return md


_flood = [0]
FLOOD_N = [300]


SPARSE = "|" + "a|" * 256 + "\n|" + "-|" * 256 + "\n" + "|x|\n" * 140 + "\nafter *table*\n"


def doc_text(doc):
    if doc == "S":
        # a table that auto-completes 35 700 cells: below the documented 65 536-cell budget alone, above it together with a second one
        return SPARSE
    if doc == "FLOOD":
        # several hundred links never seen before: any bounded per-instance cache overflows while this call runs
        n = _flood[0]
        return " ".join(f"[f{n}x{i}](http://flood{n}.example/{i}?q={i})" for i in range(FLOOD_N[0])) + "\n"
    return DOC[doc]


def do_call(md, api, doc):
    env = {}
    r = getattr(md, api)(doc_text(doc), env)
    if not isinstance(r, str):
        r = [t.as_dict() for t in r]
    return (r, {k: v for k, v in env.items()})


_libdir = None


class _Solo(dict):
    def __missing__(self, key):
        scn, api, d = key
        sc = next(s for s in SCENARIOS if s["name"] == scn)
        if d == "FLOOD":
            return do_call(C.build(sc["conf"]), api, d)   # not memoised: the text changes with every schedule
        if d == "S":
            self[key] = do_call(make_instance(sc), api, d)
            return self[key]
        raise KeyError(key)


_solo = _Solo()
_fine = None
_events = {}


def setup():
    global _libdir, _fine
    if _libdir is not None:
        return
    import markdown_it
    import mdurl
    _libdir = os.path.dirname(os.path.abspath(markdown_it.__file__)) + os.sep
    mdurl.encode("x y%zzé")
    mdurl.decode("%41%zz")
    from markdown_it.main import MarkdownIt
    from markdown_it.parser_block import ParserBlock
    from markdown_it.parser_core import ParserCore
    from markdown_it.parser_inline import ParserInline
    from markdown_it.renderer import RendererHTML
    from markdown_it.ruler import Ruler
    from markdown_it.utils import OptionsDict
    # warm everything process-wide, and record the solo results (the sequential specification)
    for sc in SCENARIOS:
        for api in ("render", "parse", "parseInline"):
            for d in DOC:
                _solo[(sc["name"], api, d)] = do_call(make_instance(sc), api, d)
    writers = set()
    for sc in SCENARIOS:
        holder = {}

        def thunk():
            md = holder["md"]
            for api in ("render", "parse", "parseInline"):
                for d in DOC:
                    do_call(md, api, d)
        # instances are constructed outside the logging window: only writes made while parsing count
        holder["md"] = make_instance(sc)
        writers |= discover_shared_writers(thunk, [MarkdownIt, Ruler, ParserBlock, ParserInline, ParserCore, RendererHTML, OptionsDict])
    _fine = {c for c in writers if c.co_filename.startswith(_libdir)}
    import types
    import markdown_it.main as _m
    import markdown_it.ruler as _r
    for modl in (_m, _r):
        for obj in vars(modl).values():
            if isinstance(obj, type) and obj.__module__ == modl.__name__ and obj.__name__ != "StateBase":   # parse states are per-call
                for f in vars(obj).values():
                    f = getattr(f, "__func__", f)
                    if isinstance(f, types.FunctionType):
                        _fine.add(f.__code__)
                    elif isinstance(f, property) and f.fget:
                        _fine.add(f.fget.__code__)


def total_events(sched, sc, call):
    key = (sc["name"], call)
    if key not in _events:
        md = make_instance(sc)
        sched.run([("A", lambda: do_call(md, *call))], {}, {})
        _events[key] = (sched.counts.get("A", 0), sched.fine_hits.get("A", 0))
    return _events[key]


def fine_event_indices(sched, sc, call, only_file=None):
    """indices (event numbers of role A) of the events of `call` that fall inside shared-state code"""
    md0 = make_instance(sc)
    ks = []
    orig_event = sched._event

    def spy(code, where, fine, _o=orig_event):
        _o(code, where, fine)
        if fine and sched.roles.get(threading.get_ident()) == "A" and (only_file is None or code.co_filename.endswith(only_file)):
            ks.append(sched.counts.get("A", 0))
    sched._event = spy
    try:
        sched.run([("A", lambda: do_call(md0, *call))], {}, {})
    finally:
        sched._event = orig_event
    return ks


def run_schedule(ctx, sched, case, record=True):
    sc = next(s for s in SCENARIOS if s["name"] == case["scenario"])
    calls = [tuple(c) for c in case["calls"]]
    md = make_instance(sc)
    if sc.get("used"):
        _flood[0] += 1
        do_call(md, *calls[0])   # pre-touch: whatever call A needs is cached when the schedule starts
    roles = ["A", "B", "C"][:len(calls)]
    thunks = [(r, (lambda c=c: do_call(md, *c))) for r, c in zip(roles, calls)]
    plan = {"A": case["k1"]}
    if len(calls) == 3:
        plan["B"] = case["k2"]
    budgets = {}
    for r, c in zip(roles, calls):
        budgets[r] = 40 * max(200, total_events(sched, sc, c)[0]) + 2000
    res = sched.run(thunks, plan, budgets)
    errs = []
    reached = "A" in sched.park_at
    if record:
        if reached:
            ctx.count("schedules.double" if len(calls) == 3 else "schedules.single")
            ctx.count("points.instruction" if sched.parked_in_fine.get("A") else "points.line")
            if sched.parked_in_fine.get("A"):
                ctx.count("points.in_shared_write_code")
            if sched.counts.get("B", 0) > 0:
                ctx.count("b_ran_inside_a")
            if len(calls) == 3 and sched.counts.get("C", 0) > 0 and "B" in sched.park_at:
                ctx.count("c_ran_inside_b_inside_a")
        else:
            ctx.count("schedules.k_beyond_end")
    for r, c in zip(roles, calls):
        got = res.get(r)
        if got is None:
            expected = r == "A" or (r == "B" and reached) or (r == "C" and "B" in sched.park_at)
            if expected:
                errs.append(("call-missing", f"call {r} {c} produced no result"))
            continue
        want = _solo[(sc["name"], c[0], c[1])]
        at = sched.park_at.get("A", "?")
        if got[0] == "budget":
            errs.append(("interference:no-termination", f"call {r} {c} did not finish within its step budget ({got[1]}) when A was pre-empted at {at}"))
        elif got[0] == "exc":
            errs.append(("interference:exception", f"call {r} {c} raised {got[1]} when A was pre-empted at {at}"))
        elif got[1] != want:
            what = "env" if got[1][0] == want[0] else "result"
            a = str(got[1][0])[:160]
            w = str(want[0])[:160]
            errs.append(("interference:wrong-" + what, f"call {r} {c} returned {a!r} instead of its solo result {w!r} when A was pre-empted at {at}"))
    return errs, reached


def run_pingpong(ctx, sched, case, record=True):
    sc = next(s for s in SCENARIOS if s["name"] == case["scenario"])
    ca, cb = tuple(case["calls"][0]), tuple(case["calls"][1])
    md = make_instance(sc)
    if sc.get("used"):
        _flood[0] += 1
        do_call(md, *ca)
    budgets = {"A": 40 * max(200, total_events(sched, sc, ca)[0]) + 2000, "B": 40 * max(200, total_events(sched, sc, cb)[0]) + 2000}
    res = sched.run_pp(lambda: do_call(md, *ca), lambda: do_call(md, *cb), case["k1"], case["k2"], budgets)
    errs = []
    reached = "A" in sched.park_at and "B" in sched.park_at
    if record:
        ctx.count("schedules.pingpong" if reached else "schedules.pingpong_degenerate")
        if sched.parked_in_fine.get("A"):
            ctx.count("pingpong.a_parked_in_shared_write_code")
    for r, c in (("A", ca), ("B", cb)):
        got = res.get(r)
        if got is None:
            if r == "A" or "A" in sched.park_at:
                errs.append(("call-missing", f"call {r} {c} produced no result"))
            continue
        want = _solo[(sc["name"], c[0], c[1])]
        at = f"A parked at {sched.park_at.get('A', '?')}, B parked at {sched.park_at.get('B', '(ran to completion)')}, then A resumed before B"
        if got[0] == "budget":
            errs.append(("interference:no-termination", f"call {r} {c} exceeded its step budget ({got[1]}); {at}"))
        elif got[0] == "exc":
            errs.append(("interference:exception", f"call {r} {c} raised {got[1]}; {at}"))
        elif got[1] != want:
            errs.append(("interference:wrong-result", f"call {r} {c} returned {str(got[1][0])[:160]!r} instead of its solo result {str(want[0])[:160]!r}; {at}"))
    return errs, reached


def check_case(ctx, sched, case):
    ctx.count("evaluations")
    ctx.current = case
    if case.get("mode") == "pingpong":
        errs, reached = run_pingpong(ctx, sched, case)
    else:
        errs, reached = run_schedule(ctx, sched, case)
    if reached:
        ctx.nontrivial(case["scenario"], repr(case["calls"]), case["k1"], case.get("k2"))
    for key in sorted({k for k, _ in errs}):
        msg = next(m for k, m in errs if k == key)
        ctx.violation(key, f"{msg} | schedule={case}", case)
    return reached


# ---- nested re-entry ------------------------------------------------------------------------------------------------
def nested_case(ctx, case):
    """plug-ins that re-enter the parser on the same instance vs on a separate identically configured instance"""
    ctx.count("evaluations")
    ctx.current = case
    sc = next(s for s in SCENARIOS if s["name"] == case["scenario"])
    kind, outer_doc, inner_doc, inner_api = case["kind"], case["outer"], case["inner"], case["inner_api"]

    def build(target_is_self):
        md = make_instance(sc)
        other = md if target_is_self else make_instance(sc)
        log = []

        depth = [0]

        def inner():
            if target_is_self is None:
                return None  # third variant: the same plug-in, but it does not re-enter at all
            if depth[0]:
                return None  # the harness re-enters once, not recursively
            depth[0] += 1
            try:
                env = {}
                r = getattr(other, inner_api)(doc_text(inner_doc), env)
                if not isinstance(r, str):
                    r = [t.as_dict() for t in r]
                log.append((r, dict(env)))
                return r
            finally:
                depth[0] -= 1
        if kind == "core":
            def rule(state):
                if not getattr(state, "_vf_nested", False) and state.src == doc_text(outer_doc):
                    inner()
            md.core.ruler.after(case.get("after", "block"), "vf_nested", rule)
        elif kind == "render_rule":
            tok = case.get("token", "paragraph_open")
            orig_rule = md.renderer.rules.get(tok)

            def rr(self, tokens, idx, options, env):
                if env.get("vf_outer"):
                    inner()
                if orig_rule is not None:
                    return orig_rule(tokens, idx, options, env)
                return self.renderToken(tokens, idx, options, env)
            md.add_render_rule(tok, rr)
        elif kind == "highlight":
            def hl(content, lang, attrs):
                inner()
                return ""
            md.options["highlight"] = hl
        elif kind == "block_rule":
            # a never-matching block rule, also consulted as a terminator (table rows, paragraphs, quotes): re-enters once, early
            fired = [False]

            def brule(state, startLine, endLine, silent):
                if not fired[0] and startLine >= 2 and state.src == doc_text(outer_doc):
                    fired[0] = True
                    inner()
                return False
            md.block.ruler.before("paragraph", "vf_nested_block", brule, {"alt": ["paragraph", "reference", "blockquote", "list"]})
        elif kind == "link_hook":
            # application override of the link validator that itself uses the parser (e.g. renders an audit note)
            stock = md.validateLink

            def vhook(url):
                if not getattr(vhook, "busy", False):
                    vhook.busy = True
                    try:
                        inner()
                    finally:
                        vhook.busy = False
                return stock(url)
            md.validateLink = vhook
        elif kind == "inline_rule":
            def irule(state, silent):
                if state.src[state.pos] == "`" and not state.env.get("vf_inner") and state.env.get("vf_outer"):
                    state.env["vf_inner"] = True
                    inner()
                    state.env["vf_inner"] = False
                return False
            md.inline.ruler.before("backticks", "vf_nested", irule)
        return md, log
    out = []
    for target_is_self in (True, False, None):
        md, log = build(target_is_self)
        env = {"vf_outer": True}
        try:
            r = md.render(doc_text(outer_doc), env)
        except BaseException as e:  # noqa: BLE001
            r = f"EXC {type(e).__name__}: {e}"
        env.pop("vf_outer", None)
        env.pop("vf_inner", None)
        out.append((r, env, log))
    ctx.count("nested.reentries", len(out[0][2]))
    if kind == "link_hook":
        ctx.count("nested.link_hook", len(out[0][2]))
    if out[0][2]:
        ctx.nontrivial("nested", repr(case))
    if out[0] != out[1]:
        which = "outer result" if out[0][0] != out[1][0] else ("outer env" if out[0][1] != out[1][1] else "inner results")
        ctx.violation("nested-reentry-differs", f"{which} differ when the plug-in re-enters the same instance instead of a separate one: "
                      f"{str(out[0][0])[:200]!r} vs {str(out[1][0])[:200]!r} | case={case}", case)
    if out[0][:2] != out[2][:2]:
        # (state shared beyond the instance - per thread, per process - hits the "separate instance" variant just the same)
        which = "outer result" if out[0][0] != out[2][0] else "outer env"
        ctx.violation("nested-reentry-changes-outer-call", f"{which} of the outer call differs from the same call with a plug-in that does not re-enter: "
                      f"{str(out[0][0])[:200]!r} vs {str(out[2][0])[:200]!r} | case={case}", case)
    for (r, e) in out[0][2]:
        want = _solo[(sc["name"], inner_api, inner_doc)]
        if (r, e) != want:
            ctx.violation("nested-inner-not-solo", f"re-entrant {inner_api}({inner_doc}) returned {str(r)[:160]!r}, solo {str(want[0])[:160]!r} | case={case}", case)
            break


# ---- free-running stress --------------------------------------------------------------------------------------------------
def stress(ctx, runs, nthreads):
    from markdown_it.ruler import Ruler
    log = []
    lock = threading.Lock()
    orig = Ruler.__compile__

    def logged(self):
        with lock:
            log.append((id(self), threading.get_ident(), 1))
        try:
            return orig(self)
        finally:
            with lock:
                log.append((id(self), threading.get_ident(), -1))
    Ruler.__compile__ = logged
    old = sys.getswitchinterval()
    sys.setswitchinterval(1e-6)
    try:
        for run in range(runs):
            sc = SCENARIOS[run % len(SCENARIOS)]
            md = make_instance(sc)
            calls = [(("render", "parse", "parseInline")[i % 3], list(DOC)[(i + run) % len(DOC)]) for i in range(nthreads)]
            res = [None] * nthreads
            bar = threading.Barrier(nthreads)
            del log[:]

            def worker(i):
                bar.wait()
                try:
                    res[i] = ("ok", do_call(md, *calls[i]))
                except BaseException as e:  # noqa: BLE001
                    res[i] = ("exc", f"{type(e).__name__}: {e}")
            ts = [threading.Thread(target=worker, args=(i,)) for i in range(nthreads)]
            for t in ts:
                t.start()
            import ctypes
            import time as _time
            deadline = _time.monotonic() + 30
            for t in ts:
                t.join(max(0.1, deadline - _time.monotonic()))
            for t in ts:
                if t.is_alive():
                    # a call that never returns (e.g. an empty block chain): stop the thread so the run stays bounded
                    ctypes.pythonapi.PyThreadState_SetAsyncExc(ctypes.c_ulong(t.ident), ctypes.py_object(SystemExit))
            for t in ts:
                t.join(10)
            ctx.count("evaluations")
            ctx.count("stress.runs")
            inside = {}
            overlap = False
            for rid, tid, d in log:
                s = inside.setdefault(rid, set())
                if d == 1:
                    if s:
                        overlap = True
                    s.add(tid)
                else:
                    s.discard(tid)
            if overlap:
                ctx.count("stress.overlapping_compiles")
                ctx.nontrivial("stress", ctx.shard, run)
            if sum(ctx.vcount.values()) > 6:
                break
            for i, r in enumerate(res):
                want = _solo[(sc["name"], calls[i][0], calls[i][1])]
                if r is None:
                    ctx.violation("interference:no-termination", f"stress: thread {i} {calls[i]} did not return within 30 s with {nthreads} threads on a fresh {sc['name']} instance (solo: milliseconds)", {"kind": "stress", "scenario": sc["name"], "threads": nthreads})
                elif r[0] == "exc":
                    ctx.violation("interference:exception", f"stress: {calls[i]} raised {r[1]} with {nthreads} threads on a fresh {sc['name']} instance", {"kind": "stress", "scenario": sc["name"], "threads": nthreads})
                elif r[1] != want:
                    ctx.violation("interference:wrong-result", f"stress: {calls[i]} returned {str(r[1][0])[:160]!r} instead of {str(want[0])[:160]!r} with {nthreads} threads", {"kind": "stress", "scenario": sc["name"], "threads": nthreads})
    finally:
        sys.setswitchinterval(old)
        Ruler.__compile__ = orig


def replay(ctx, case):
    setup()
    if case.get("kind") == "stress":
        stress(ctx, 200, case.get("threads", 8))
        return
    if case.get("kind") in ("core", "render_rule", "highlight", "inline_rule", "link_hook", "block_rule"):
        nested_case(ctx, case)
        return
    sched = PingPong(_libdir, _fine)
    sched.install()
    try:
        check_case(ctx, sched, case)
    finally:
        sched.uninstall()


def run(ctx):
    import time as _t
    t0 = _t.monotonic()

    def mark(name):
        nonlocal t0
        ctx.cmax("phase_seconds." + name, int(_t.monotonic() - t0))
        t0 = _t.monotonic()
    setup()
    FLOOD_N[0] = 300 if ctx.quick else 1100
    mark("setup")
    rng = ctx.rng
    ctx.count("shared_writers_discovered", len(_fine))
    ctx.info["shared_writers"] = sorted(f"{os.path.basename(c.co_filename)}:{c.co_name}" for c in _fine)
    sched = PingPong(_libdir, _fine)
    sched.install()
    try:
        idx = 0
        # ping-pong schedules (A1 B1 A2 B2): every event of A inside shared-write code x a spread of points of B, plus random pairs
        for sc in (SCENARIOS[:2] + SCENARIOS[4:5] if ctx.quick else SCENARIOS):
            for calls in (callsets_for(sc, ctx.quick)[:3] if ctx.quick else callsets_for(sc, False)):
                if calls[1][1] == "FLOOD":
                    continue
                ta, _fa = total_events(sched, sc, calls[0])
                tb2, _fb = total_events(sched, sc, calls[1])
                # locate A's events that fall inside shared-write code
                md0 = make_instance(sc)
                fine_ks = []
                orig_event = sched._event

                def spy(code, where, fine, _o=orig_event):
                    _o(code, where, fine)
                    if fine and sched.roles.get(threading.get_ident()) == "A":
                        fine_ks.append((sched.counts.get("A", 0), code))
                sched._event = spy
                try:
                    sched.run([("A", lambda: do_call(md0, *calls[0]))], {}, {})
                finally:
                    sched._event = orig_event
                spread = [max(1, int(tb2 * f)) for f in ((0.15, 0.6) if ctx.quick else (0.03, 0.1, 0.25, 0.5, 0.75, 0.9, 0.98))]
                per_code = collections.Counter(c for _, c in fine_ks)
                if ctx.quick:
                    # functions with long shared-write stretches (first-use compile, rule look-ups): every 8th bytecode;
                    # short ones (a test-and-set window) completely
                    fine_ks = [k for j, (k, c) in enumerate(fine_ks) if per_code[c] <= 120 or j % 8 == ctx.seed % 8]
                else:
                    fine_ks = [k for k, _ in fine_ks]
                heavy = calls[0][1] == "M" or calls[1][1] == "M"
                if heavy and not ctx.quick:
                    spread = spread[1::3]   # (these calls are ten times longer than the others)
                ks = [(k1, k2) for k1 in fine_ks for k2 in spread]
                for _ in range(60 if ctx.quick else (300 if heavy else 1500)):
                    ks.append((rng.randint(1, ta), rng.randint(1, tb2)))
                for (k1, k2) in ks:
                    idx += 1
                    if not ctx.mine(idx):
                        continue
                    check_case(ctx, sched, {"mode": "pingpong", "scenario": sc["name"], "calls": [list(calls[0]), list(calls[1])], "k1": k1, "k2": k2})
        mark("pingpong")
        for sc in SCENARIOS:
            for calls in callsets_for(sc, ctx.quick):
                total, fine = total_events(sched, sc, calls[0])
                ctx.cmax("max_events_in_call_A", total)
                # first-use prefix: everything up to and a little beyond the last event inside shared-write code
                md = make_instance(sc)
                sched.run([("A", lambda: do_call(md, *calls[0]))], {}, {})
                prefix = min(total, 350 if ctx.quick else total)
                stride = 17 if ctx.quick else 1
                ks = list(range(1, prefix + 1)) + list(range(prefix + 1 + (ctx.seed % stride), total + 1, stride))
                if calls[0][1] == "M" or calls[1][1] == "M":
                    # (long calls: a spread of points instead of every one)
                    step = max(1, len(ks) // (120 if ctx.quick else 1500))
                    ks = ks[ctx.seed % step::step]
                if calls[1][1] == "FLOOD":
                    # the flooding second call is expensive: pre-empt A only inside shared-state code (facade, rule manager)
                    # (quick: only the facade's own methods, thorough: the rule managers' too)
                    ks = fine_event_indices(sched, sc, calls[0], os.sep + "main.py" if ctx.quick else None)
                for k in ks:
                    idx += 1
                    if not ctx.mine(idx):
                        continue
                    case = {"scenario": sc["name"], "calls": [list(c) for c in calls], "k1": k}
                    check_case(ctx, sched, case)
                    if idx % 4001 == 0:
                        ctx.sample(dict(case, parked_at=sched.park_at.get("A")))
        mark("single")
        # two pre-emptions, concentrated on the first-use windows
        n2 = ctx.scale(2500, 200000)
        for _ in range(n2):
            sc = rng.choice(SCENARIOS[:5])
            calls = rng.choice(callsets_for(sc, ctx.quick))
            third = rng.choice([("render", "C"), ("parse", "A"), ("parseInline", "I"), ("render", "T")])
            ta, _f = total_events(sched, sc, calls[0])
            tb, _f = total_events(sched, sc, calls[1])
            k1 = rng.randint(1, min(ta, 400)) if rng.random() < 0.8 else rng.randint(1, ta)
            k2 = rng.randint(1, min(tb, 400)) if rng.random() < 0.8 else rng.randint(1, tb)
            case = {"scenario": sc["name"], "calls": [list(calls[0]), list(calls[1]), list(third)], "k1": k1, "k2": k2}
            check_case(ctx, sched, case)
    finally:
        sched.uninstall()
    mark("double")
    # nested starts
    k = 0
    for sc in SCENARIOS:
        if sc.get("used"):
            continue   # plug-ins would accumulate on the long-lived instance
        for kind, extra in (("core", {"after": "block"}), ("core", {"after": "normalize"}), ("core", {"after": "inline"}), ("render_rule", {"token": "paragraph_open"}),
                            ("render_rule", {"token": "text"}), ("highlight", {}), ("inline_rule", {}), ("link_hook", {}), ("block_rule", {})):
            for outer in ("A", "B", "C", "T"):
                for inner in ("B", "I", "C"):
                    for inner_api in ("render", "parseInline", "parse"):
                        k += 1
                        if ctx.mine(k):
                            nested_case(ctx, dict({"kind": kind, "scenario": sc["name"], "outer": outer, "inner": inner, "inner_api": inner_api}, **extra))
    mark("nested")
    # document-wide budgets and counters: a table that auto-completes 35 700 cells re-entered by a render of the same document
    # (each below the 65 536-cell budget, together above it)
    for sc in SCENARIOS[1:3]:
        for inner_api in ("render", "parse"):
            k += 1
            if ctx.mine(k):
                ctx.count("nested.budget_documents")
                nested_case(ctx, {"kind": "block_rule", "scenario": sc["name"], "outer": "S", "inner": "S", "inner_api": inner_api})
    stress(ctx, ctx.scale(800, 40000), 8 if ctx.shard % 2 else 16)
    mark("stress")


@selftest
def _selftest():
    setup()
    assert _fine, "no shared-state writer discovered (Ruler.__compile__ expected)"
    assert any(c.co_name == "__compile__" for c in _fine)
