"""C08 — verbatim content and recorded markup come from the source, unaltered."""
from __future__ import annotations

import re

from vf import conf as C
from vf import gen
from vf import workload as W
from vf.mon.c03 import sample_conf
from vf.selftests import selftest
from vf.util import minimize_text, src_lines, walk

LEVEL = "exploration"
RULE = (
    "cases = (block-rule configuration, source); oracle = reconstruction monitor: every code_block/fence/html_block content line "
    "must be spaces^k + a suffix of the source line given by the token map, the removed prefix consisting of indentation/container "
    "markers only and k>0 only when that prefix holds a tab; line counts must agree with the map; every code_inline content must be "
    "norm(raw) for a raw between two backtick runs of len(markup) in the enclosing inline content; fence markup+info = tail of the "
    "opening line (run not extensible to the left); ATX/setext/hr/list/blockquote markup, list info and start = what is written. "
    "Non-trivial = document with >=1 verbatim block, code span or marked-up block; distinct by (conf id, source)."
    " A code span must end at the first backtick string of its delimiter length."
)
ASSUMPTIONS = [
    "suffix-based: a dropped character that itself looks like a container marker at the very start of code content would be accepted (C06/C17 twins cover that angle)",
    "source lines are those of the normalised input (CRLF/CR->LF, NUL->U+FFFD), cross-checked by C17",
]
PREFIX_RE = re.compile(r"^[ \t>\-+*0-9.)]*$")


def floors(tier):
    return {"recon.code_block": 5000, "recon.fence": 5000, "recon.html_block": 2000, "partial_tab_lines": 200, "codespan.checked": 10000,
            "codespan.padded_stripped": 500, "codespan.padded_kept": 200, "markup.fence": 5000, "markup.atx": 5000, "markup.setext": 1000,
            "markup.hr": 2000, "markup.list_item": 10000, "markup.ordered_start": 2000, "markup.blockquote": 5000, "fence.unclosed_eof": 200}


def line_ok(c, s):
    """content line c vs source line s: c = ' '*k + r, s = prefix + r; k>0 only if prefix has a tab"""
    rest = c.lstrip(" ")
    k = len(c) - len(rest)
    for kk in range(k, -1, -1):
        r = c[kk:]
        if s.endswith(r):
            pre = s[:len(s) - len(r)]
            if PREFIX_RE.match(pre) and (kk == 0 or "\t" in pre):
                return kk, width(pre) - kk - origin(pre)
    return -1, 0


def origin(pre):
    """physical column at which the innermost block quote's content starts on this line (0 outside quotes): a quote marker may be
    indented 0-3 columns and may or may not be followed by its optional space, so this origin differs from line to line"""
    j = pre.rfind(">")
    if j < 0:
        return 0
    col = width(pre[:j + 1])
    if j + 1 < len(pre) and pre[j + 1] in " \t":
        col += 1
    return col


def width(s):
    """visual width from the start of the physical line (tab stops every 4 columns)"""
    col = 0
    for ch in s:
        col += (4 - col % 4) if ch == "\t" else 1
    return col


def norm_span(raw):
    r = raw.replace("\n", " ")
    if len(r) >= 2 and r[0] == " " and r[-1] == " " and r.strip(" ") != "":
        return r[1:-1], True
    return r, False


def check(src, toks, ctx=None):
    errs = []
    lines = src_lines(src)
    N = len(lines)
    ends_nl = src.endswith(("\n", "\r"))

    def cnt(k, n=1):
        if ctx is not None:
            ctx.count(k, n)
    open_ol = []
    containers = []   # types of the container tokens currently open
    for idx, t in enumerate(toks):
        ty = t.type
        m = t.map
        if t.nesting == 1 and ty in ("blockquote_open", "list_item_open", "bullet_list_open", "ordered_list_open"):
            containers.append(ty)
        elif t.nesting == -1 and ty in ("blockquote_close", "list_item_close", "bullet_list_close", "ordered_list_close") and containers:
            containers.pop()
        if ty in ("code_block", "fence", "html_block"):
            if not m or not (0 <= m[0] < m[1] <= N):
                continue  # map sanity is C03's business
            b, e = m
            c = t.content
            cl = c.split("\n")
            if c.endswith("\n"):
                cl = cl[:-1]
            elif c != "":
                # a missing final LF is only possible on the very last line of an input without final newline
                if not (e == N and not ends_nl):
                    errs.append((ty + "-no-final-LF", f"{ty} content {c[-30:]!r} lacks LF though map={m} N={N}"))
                    continue
            if c == "":
                cl = []
            if ty == "fence":
                sl = lines[b + 1:e]
                if len(sl) == len(cl) + 1:
                    closing = sl[-1]
                    mk = t.markup[:1] or "`"
                    body = closing.lstrip(" \t>-+*0123456789.)")
                    # closing fence line: a run of the fence character at least as long as the opening, then blanks
                    mm = re.search(re.escape(mk) + r"{" + str(len(t.markup)) + r",}[ \t]*$", closing)
                    if not mm or not PREFIX_RE.match(closing[:mm.start()].replace(mk, "")):
                        errs.append(("fence-linecount", f"fence content has {len(cl)} lines, map={m}, extra line {closing!r} is no closing fence"))
                        continue
                    sl = sl[:-1]
                elif e == N and len(sl) == len(cl):
                    cnt("fence.unclosed_eof")
            else:
                sl = lines[b:e]
            if len(sl) == len(cl) + 1 and e == N and not ends_nl and sl[-1].strip(" \t>") == "" and c.endswith("\n"):
                # the block's last line is the (content-less) last line of an input without final newline: it contributes an
                # empty content line that has no line feed of its own
                cl = cl + [""]
            if len(sl) != len(cl):
                errs.append((ty + "-linecount", f"{ty} content has {len(cl)} lines but map={m} gives {len(sl)}: {c!r}"))
                continue
            cols = []
            for ci, si in zip(cl, sl):
                k, icol = line_ok(ci, si)
                if k < 0:
                    errs.append((ty + "-content", f"{ty} content line {ci!r} is not (spaces +) a suffix of source line {si!r}"))
                    break
                if k > 0:
                    cnt("partial_tab_lines")
                if ci.strip(" \t") != "":
                    cols.append((icol, k > 0 or ci[0] == " " or ty == "code_block", ci, si))
            else:
                cnt("recon." + ty)
                # column consistency: relative to the innermost quote's content origin on each line, all lines of one verbatim block
                # lose the same indentation column I; a line that kept leading spaces (or got them from a partially consumed
                # tab) must have lost exactly I columns
                if cols and ty == "fence":
                    # a fence strips exactly its own indentation: the column of the opening marker (quote-relative)
                    l0 = lines[b]
                    tail0 = t.markup + t.info
                    if l0.endswith(tail0):
                        pre0 = l0[:len(l0) - len(tail0)]
                        fi = width(pre0) - origin(pre0)
                        for c0, strict, ci, si in cols:
                            if c0 > fi or (strict and c0 != fi):
                                errs.append(("fence-own-indent", f"fence opened at column {fi} but content line {si!r} -> {ci!r} lost {c0} columns"))
                                break
                        else:
                            cnt("fence_indent_checks", len(cols))
                if cols and ty == "code_block" and all(x == "blockquote_open" for x in containers):
                    # at top level or inside quotes only, an indented code block loses exactly four columns after the quote's content origin
                    for c0, strict, ci, si in cols:
                        if c0 != 4:
                            errs.append(("code_block-indent-column", f"code_block line {si!r} -> {ci!r} lost {c0} columns of indentation after the quote prefix, an indented code block strips exactly 4"))
                            break
                    else:
                        cnt("code_block_absolute_checks", len(cols))
                if cols:
                    imax = max(c0 for c0, _, _, _ in cols)
                    for c0, strict, ci, si in cols:
                        if strict and c0 != imax:
                            errs.append((ty + "-indent-column", f"{ty} line {si!r} -> {ci!r} lost {c0} columns of indentation, other lines of the block lost {imax}"))
                            break
                    else:
                        cnt("column_checks", len(cols))
        if ty == "fence" and m and 0 <= m[0] < N:
            l0 = lines[m[0]]
            tail = t.markup + t.info
            pre = l0[:len(l0) - len(tail)] if l0.endswith(tail) else None
            if (pre is None or not PREFIX_RE.match(pre) or len(t.markup) < 3 or set(t.markup) not in ({"`"}, {"~"})
                    or pre.endswith(t.markup[0])):
                errs.append(("fence-markup-info", f"fence markup={t.markup!r} info={t.info!r} vs opening line {l0!r}"))
            else:
                cnt("markup.fence")
        elif ty == "hr" and m and 0 <= m[0] < N:
            l0 = lines[m[0]]
            mk = t.markup
            if not mk or set(mk) != {mk[0]} or mk[0] not in "-*_":
                errs.append(("hr-markup", f"hr markup {mk!r}"))
            else:
                # the hr's own text: maximal suffix of the line consisting of marker chars and blanks
                j = len(l0)
                while j > 0 and l0[j - 1] in (mk[0], " ", "\t"):
                    j -= 1
                own = l0[j:]
                # a list bullet of the same character in front of the hr belongs to the container, not to the hr:
                # accept any count between what the tail holds and what remains after dropping leading "x " markers
                n_tail = own.count(mk[0])
                ok = len(mk) == n_tail
                if not ok and mk[0] in "-*":
                    # "- - - -" in a list context: leading "- " groups may be list markers
                    parts = own
                    n = n_tail
                    while n > len(mk) and re.match(r"^[ \t]*" + re.escape(mk[0]) + r"[ \t]+", parts):
                        parts = re.sub(r"^[ \t]*" + re.escape(mk[0]) + r"[ \t]+", "", parts, count=1)
                        n -= 1
                    ok = n == len(mk) and len(mk) >= 3
                if not ok or len(mk) < 3:
                    errs.append(("hr-markup", f"hr markup {mk!r} vs line {l0!r}"))
                else:
                    cnt("markup.hr")
        elif ty == "heading_open" and m and 0 <= m[0] < m[1] <= N:
            if t.markup in ("=", "-"):
                ll = lines[m[1] - 1]
                body = ll.strip(" \t")
                core = re.sub(r"^[ \t>\-+*0-9.)]*?(?=[=\-]+[ \t]*$)", "", ll)
                if not re.fullmatch(re.escape(t.markup) + r"+[ \t]*", core) or t.tag != ("h1" if t.markup == "=" else "h2"):
                    errs.append(("setext-markup", f"heading markup {t.markup!r} tag {t.tag} vs underline {ll!r}"))
                else:
                    cnt("markup.setext")
            else:
                l0 = lines[m[0]]
                ok = False
                for mm in re.finditer(r"#+", l0):
                    if PREFIX_RE.match(l0[:mm.start()]) and mm.group(0) == t.markup and (mm.end() == len(l0) or l0[mm.end()] in " \t"):
                        ok = True
                        break
                if not ok or t.tag != "h%d" % len(t.markup) or not 1 <= len(t.markup) <= 6:
                    errs.append(("atx-markup", f"heading markup {t.markup!r} tag {t.tag} vs line {l0!r}"))
                else:
                    cnt("markup.atx")
        elif ty == "list_item_open" and m and 0 <= m[0] < N:
            l0 = lines[m[0]]
            if t.markup in (".", ")"):
                if not t.info.isdigit() or not re.search(r"(?<![0-9])" + re.escape(t.info + t.markup) + r"(?:[ \t]|$)", l0):
                    errs.append(("list-item-markup", f"ordered item info={t.info!r} markup={t.markup!r} vs line {l0!r}"))
                else:
                    cnt("markup.list_item")
            elif t.markup in ("-", "+", "*") and not t.info:
                if not re.search(r"(?:^|[ \t>\-+*0-9.)])" + re.escape(t.markup) + r"(?:[ \t]|$)", l0):
                    errs.append(("list-item-markup", f"bullet markup={t.markup!r} vs line {l0!r}"))
                else:
                    cnt("markup.list_item")
            else:
                errs.append(("list-item-markup", f"item markup={t.markup!r} info={t.info!r}"))
        elif ty in ("ordered_list_open", "bullet_list_open"):
            # first item carries the written marker
            nxt = toks[idx + 1] if idx + 1 < len(toks) else None
            if nxt is None or nxt.type != "list_item_open" or nxt.markup != t.markup:
                errs.append(("list-markup", f"{ty} markup={t.markup!r} first item {nxt.type if nxt else None} markup={nxt.markup if nxt else None!r}"))
            elif ty == "ordered_list_open":
                start = t.attrs.get("start", 1)
                if not nxt.info.isdigit() or int(nxt.info) != start or isinstance(start, bool):
                    errs.append(("ordered-start", f"ordered list start={start!r} but first item is written {nxt.info!r}"))
                else:
                    cnt("markup.ordered_start")
        elif ty == "blockquote_open" and m and 0 <= m[0] < N:
            if t.markup != ">" or ">" not in lines[m[0]]:
                errs.append(("blockquote-markup", f"blockquote markup {t.markup!r} vs line {lines[m[0]]!r}"))
            else:
                cnt("markup.blockquote")
        elif ty == "inline" and t.children:
            spans = [c for c in walk(t.children) if c.type == "code_inline"]
            if spans:
                runs = [(x.start(), x.end()) for x in re.finditer(r"`+", t.content)]
                maximal = list(runs)
                # a backslash in front of a run may escape its first backtick (outside code spans), shortening the run by one
                runs += [(a + 1, b) for a, b in runs if a > 0 and t.content[a - 1] == "\\" and b - a > 1]
                runs.sort()
                for ch in spans:
                    ml = len(ch.markup)
                    if set(ch.markup) != {"`"}:
                        errs.append(("codespan-markup", f"code_inline markup {ch.markup!r}"))
                        continue
                    rs = [r for r in runs if r[1] - r[0] == ml]
                    found = False
                    over = None
                    for i in range(len(rs)):
                        for j in range(i + 1, len(rs)):
                            want, stripped = norm_span(t.content[rs[i][1]:rs[j][0]])
                            if want == ch.content and any(b - a == ml and a >= rs[i][1] and b <= rs[j][0] for a, b in maximal):
                                # "its backtick strings": the closing one is the first run of the opener's length after the opener
                                over = (rs[i], rs[j])
                                continue
                            if want == ch.content:
                                found = True
                                cnt("codespan.padded_stripped" if stripped else "codespan.plain")
                                raw = t.content[rs[i][1]:rs[j][0]].replace("\n", " ")
                                if not stripped and len(raw) >= 2 and raw[0] == " " and raw[-1] == " ":
                                    cnt("codespan.padded_kept")
                                break
                        if found:
                            break
                    if not found and over:
                        errs.append(("codespan-spans-over-closer", f"code_inline {ch.content!r} (markup {ch.markup!r}) runs past a backtick string of its own length in {t.content!r}"))
                    elif not found:
                        errs.append(("codespan-content", f"code_inline {ch.content!r} (markup {ch.markup!r}) is not the text between two such backtick runs of {t.content!r}"))
                    else:
                        cnt("codespan.checked")
    return errs


def examine(ctx, conf, src, count=False):
    md = W.get_md(conf)
    try:
        toks = md.parse(src)
    except Exception:
        return None, None
    return check(src, toks, ctx if count else None), toks


def check_case(ctx, case, minimize=True):
    ctx.count("evaluations")
    ctx.current = case
    conf, src = case["conf"], case["src"]
    before = sum(v for k, v in ctx.counters.items() if k.startswith(("recon.", "markup.", "codespan.checked")))
    errs, toks = examine(ctx, conf, src, count=True)
    if toks is None:
        ctx.count("skipped.exception")
        return
    if not errs:
        after = sum(v for k, v in ctx.counters.items() if k.startswith(("recon.", "markup.", "codespan.checked")))
        if after > before:
            ctx.nontrivial(C.conf_id(conf), src)
            ctx.count("nontrivial")
        return
    for key in sorted({k for k, _ in errs}):
        msg = next(m for k, m in errs if k == key)
        c = case
        if minimize and not ctx.replaying:
            def fails(s, key=key):
                e, _ = examine(ctx, conf, s)
                return bool(e) and any(k == key for k, _ in e)
            c = dict(case, src=minimize_text(src, fails, 3.0))
        ctx.violation(key, f"{msg} | conf={conf} src={c['src']!r}", c)


def replay(ctx, case):
    check_case(ctx, case, minimize=False)


def verbatim_doc(rng):
    """verbatim blocks inside containers at every column offset, tabs around markers, blank lines inside code, EOF shapes"""
    pre = rng.choice(["", "", "> ", ">", ">\t", "- ", "-\t", "1. ", "10) ", "   ", " ", "  ", "> - ", "- > ", ">> ", "*   ", "+    ", "\t", "* + ", "- 1. ", "* 2) ", "- + ", "1. - "])
    cont = re.sub(r"[^>\t ]", " ", pre) if not pre.strip().startswith(">") else pre
    if pre.strip() in ("> -", "- >"):
        cont = "> " + "  " if pre.startswith(">") else "  > "
    kind = rng.random()
    ls = []
    if kind < 0.35:
        f = rng.choice(["```", "~~~", "````", "~~~~", "`````"])
        info = rng.choice(["", "", " py", "js x=1", " a&amp;b", "  \\*  ", "\tt", " ~~~" if f[0] == "`" else " ```", " é", "<b>"])
        if f[0] == "`":
            info = info.replace("`", "")
        ls.append(rng.choice(["", " ", "  ", "   "]) + f + info)
        for _ in range(rng.randint(0, 5)):
            ls.append(rng.choice(["x", "  y", "\tz", "", "   ", " \t w", "    4", "> q", "- l", "``", "~~", "<b>&amp;", "a\tb", "\xa0", "\x0b"]))
        if rng.random() < 0.7:
            ls.append(rng.choice(["", " ", "   "]) + f + rng.choice(["", f[0], "  ", "\t"]))
    elif kind < 0.6:
        for _ in range(rng.randint(1, 5)):
            ls.append(rng.choice(["    c", "\tc", "  \tc", "     5", "    ", "", "      ", "\t\td", "    a\tb", "   \t e", " \t f"]))
        ls.insert(0, "p") if rng.random() < 0.0 else None
    elif kind < 0.75:
        ls += rng.choice([["<div>", " *x*", "\ty", "</div>"], ["<!-- c", "  d -->"], ["<pre>", "", "  x", "</pre>"], ["<?php", "?>"], ["<x-y a='1'>", "t"]])
    elif kind < 0.85:
        ls.append(rng.choice(["---", "- - -", "* ***", "___", " ***  ", "*\t*\t*", "-  -  -  -", "_ _ _ _\t", "----------", "* * * *"]))
    else:
        ticks = "`" * rng.randint(1, 4)
        body = rng.choice(["a", " a ", "  ", " ", " \xa0 ", "\xa0a\xa0", " a", "a ", " `` ", "a\nb", " a\n b ", "\ta\t", " \t ", "\x0ba\x0b", "``" if len(ticks) != 2 else "`"])
        ls.append("t " + ticks + body + ticks + " u")
    out = []
    for i, l in enumerate(ls):
        sub = l.split("\n")
        for j, s in enumerate(sub):
            out.append((pre if (i == 0 and j == 0) else cont) + s)
    tail = rng.choice(["\n", "", "\n\n", "\nafter\n"])
    head = rng.choice(["", "", "para\n\n", "# h\n", "\ufeff", "\ufeff", "\u200b\n"])
    return head + "\n".join(out) + tail


def run(ctx):
    rng = ctx.rng
    n = ctx.scale(200000, 6000000)

    def doc_gen(r):
        x = r.random()
        if x < 0.4:
            return "verbatim", verbatim_doc(r)
        if x < 0.6:
            return "gram", gen.gram(r, final_newline=r.random() < 0.8)
        if x < 0.75:
            return "soup", gen.soup(r)
        if x < 0.95:
            return "corpus", gen.corpus_mutation(r)
        return "unicode", gen.uni_doc(r)
    for kind, conf, src in W.documents(ctx, n, conf_sampler=sample_conf, doc_gen=doc_gen, lines_confs=[W.PANEL[0], W.PANEL[2]]):
        check_case(ctx, {"conf": conf, "src": src})
        if kind == "verbatim":
            ctx.sample({"conf": conf, "src": src[:200]}, every=2999)
    # quote lines spelled out: indentation of the marker x what follows it (nothing, space, tab, mixtures) x a verbatim or plain rest;
    # 2-4 such lines per document, optionally inside a list item or an outer quote
    ind = ["", " ", "  ", "   "]
    after = ["", " ", "\t", " \t", "\t\t", "\t \t", "  \t", "\t ", "   ", "     "]
    rest = ["code", "    code", "\tcode", "```", "~~~", "x", "", "<div>", "- y", "a\tb"]
    for _ in range(ctx.scale(60000, 1500000)):
        outer = rng.choice(["", "", "", "- ", "> ", "1. ", ">"])
        cont = {"- ": "  ", "1. ": "   "}.get(outer, outer)
        ls = []
        for i in range(rng.randint(2, 4)):
            ls.append((outer if i == 0 else cont) + rng.choice(ind) + ">" + rng.choice(after) + rng.choice(rest))
        ctx.count("wl.quote_lines_spelled_out")
        check_case(ctx, {"conf": rng.choice([W.PANEL[0], W.PANEL[2], W.PANEL[1]]), "src": "\n".join(ls) + rng.choice(["\n", ""])})
    # ordered markers and hr spellings enumerated
    k = 0
    for digits in ["0", "1", "2", "007", "10", "99", "123456789", "000000001", "1234567890"]:
        for d in ".)":
            for sp in [" ", "  ", "\t", "    "]:
                for pre in ["", "> ", "- ", "  "]:
                    k += 1
                    if ctx.mine(k):
                        check_case(ctx, {"conf": W.PANEL[0], "src": f"{pre}{digits}{d}{sp}x\n"})


@selftest
def _selftest():
    from markdown_it import MarkdownIt
    md = MarkdownIt()
    src = "> ```py\n> a\n>   b\n> ```\n\n    code\n\n- - -\n\n7. x\n\n`` a ``\n"
    toks = md.parse(src)
    assert check(src, toks) == [], check(src, toks)
    for t in toks:
        if t.type == "fence":
            t.content = "a\n  B\n"
    assert any(k == "fence-content" for k, _ in check(src, toks))
    toks = md.parse(src)
    for t in toks:
        if t.type == "hr":
            t.markup = "----"
    assert any(k == "hr-markup" for k, _ in check(src, toks))
    toks = md.parse(src)
    for t in walk(toks):
        if t.type == "code_inline":
            t.content = " a "
    assert any(k == "codespan-content" for k, _ in check(src, toks))
    toks = md.parse(src)
    for t in toks:
        if t.type == "ordered_list_open":
            t.attrs["start"] = 8
    assert any(k == "ordered-start" for k, _ in check(src, toks))
