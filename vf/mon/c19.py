"""C19 — typographic replacements are local to text and never touch structure or literals."""
from __future__ import annotations

import re
import string

from vf import conf as C
from vf import gen
from vf import workload as W
from vf.selftests import selftest
from vf.util import minimize_text

LEVEL = "exploration"
RULE = (
    "cases = (preset, mode in {replacements, smartquotes, both}, quotes value (4-char string or list of four strings of length 0-4 "
    "incl. quote characters and HTML metacharacters), source) with quote-dense and trigger-dense texts around code spans, autolinks, "
    "raw HTML, links with titles, nested emphasis, line breaks. Twin = same configuration with typographer off. Oracles: flattened "
    "streams (children inlined with brackets) have the same length/order/nesting; every non-text token is equal in every field; "
    "text between an info=='auto' link_open and its link_close is byte-identical; under smartquotes-only every text token matches "
    "the regex built from its twin (each \" -> one of {\", q0, q1}, each ' -> one of {', q2, q3, U+2019}, everything else literal); "
    "fully backslash-escaped inputs are byte-identical on/off; in generated paragraphs the characters the harness wrote as "
    "escapes/references are literal in that regex. Non-trivial = document where >=1 text token changed and >=1 non-text token "
    "carries trigger characters; distinct by (conf id, source)."
)
ASSUMPTIONS = ["image alt is derived text and not compared (it is set at render time)"]
QUOTES = C.QUOTES + [["'", "\"", "\"", "'"], ["&quot;", "&#39;", "<q>", "</q>"], ["\"\"", "''", "\"", "'"], "\"\"''", "''\"\""]
PUNCT = string.punctuation


def floors(tier):
    q = tier == "quick"
    return {"twins": 60000 if q else 1500000, "text_changed_docs": 15000, "nontext_with_triggers": 15000, "mode.replacements": 10000, "mode.smartquotes": 10000,
            "mode.both": 10000, "sq.regex_checks": 20000, "sq.quotes_replaced": 20000, "autolink_text_checked": 1500, "escaped_full.twins": 10000,
            "escaped_mixed.twins": 7000, "escaped_mixed.literal_quotes": 10000, "quotes_list_values": 10000, "entity_triggers.twins": 20000, "wl.autolink_twin_text": 8000}


def flat(ts, out):
    for t in ts:
        out.append(t)
        if t.children:
            out.append("<")
            flat(t.children, out)
            out.append(">")
    return out


def shape(t):
    d = {"type": t.type, "tag": t.tag, "nesting": t.nesting, "attrs": dict(t.attrs), "map": t.map, "level": t.level, "markup": t.markup, "info": t.info,
         "meta": t.meta, "block": t.block, "hidden": t.hidden}
    if t.type not in ("text", "inline"):
        d["content"] = t.content
    if t.type == "image":
        d["attrs"] = {k: v for k, v in d["attrs"].items() if k != "alt"}
    return d


def sq_regex(twin_text, q):
    qs = list(q)
    out = []
    for c in twin_text:
        if c == '"':
            out.append("(?:\"|%s|%s)" % (re.escape(qs[0]), re.escape(qs[1])))
        elif c == "'":
            out.append("(?:'|’|%s|%s)" % (re.escape(qs[2]), re.escape(qs[3])))
        else:
            out.append(re.escape(c))
    return "".join(out)


def make_pair(case):
    conf = case["conf"]
    mode = case["mode"]
    q = case["quotes"]
    o_off = dict(conf.get("options") or {}, typographer=False, quotes=q)
    o_on = dict(o_off, typographer=True)
    en = list(conf.get("enable", [])) + (["replacements"] if mode in ("replacements", "both") else []) + (["smartquotes"] if mode in ("smartquotes", "both") else [])
    dis = list(conf.get("disable", [])) + (["smartquotes"] if mode == "replacements" else []) + (["replacements"] if mode == "smartquotes" else [])
    base = {k: v for k, v in conf.items() if k not in ("options", "enable", "disable")}
    off = W.get_md(dict(base, options=o_off, enable=sorted(set(en)), disable=sorted(set(dis))))
    on = W.get_md(dict(base, options=o_on, enable=sorted(set(en)), disable=sorted(set(dis))))
    return off, on


def examine(ctx, case, count=False):
    off, on = make_pair(case)
    src = case["src"]
    try:
        ta = off.parse(src)
    except Exception:
        return None
    try:
        tb = on.parse(src)
    except Exception as e:
        return [("typographer-on-raises", f"with the typographer on the parse raises {type(e).__name__}: {e} (off: returns normally)")]
    a, b = flat(ta, []), flat(tb, [])
    errs = []
    if len(a) != len(b):
        return [("shape:length", f"{len(a)} vs {len(b)} tokens: {[x if isinstance(x, str) else x.type for x in a][:20]} vs {[x if isinstance(x, str) else x.type for x in b][:20]}")]
    in_auto = 0
    changed = False
    trig = False
    literal = case.get("literal")   # for escaped_mixed: regex built by the generator
    for x, y in zip(a, b):
        if isinstance(x, str) or isinstance(y, str):
            if x != y:
                errs.append(("shape:nesting", f"{x!r} vs {y!r}"))
            continue
        sx, sy = shape(x), shape(y)
        if sx != sy:
            k = next(k for k in sx if sx[k] != sy.get(k))
            errs.append((f"nontext-changed:{x.type}", f"{x.type}.{k}: {sx[k]!r} -> {sy.get(k)!r}"))
            continue
        # an automatic link is recognised by either of its two marks (markup of the producing rule, info == "auto")
        if x.type == "link_open" and (x.info == "auto" or x.markup in ("autolink", "linkify")):
            in_auto += 1
        elif x.type == "link_close" and (x.info == "auto" or x.markup in ("autolink", "linkify")):
            in_auto -= 1
        if x.type != "text" and x.type != "inline" and re.search(r"[\"'()+.\-]", x.content + str(x.attrs) + x.info):
            trig = True
        if x.type == "text":
            if in_auto > 0:
                if count:
                    ctx.count("autolink_text_checked")
                if x.content != y.content:
                    errs.append(("autolink-text-changed", f"{x.content!r} -> {y.content!r}"))
                continue
            if x.content != y.content:
                changed = True
            if case["mode"] == "smartquotes":
                rx = literal if (literal is not None) else sq_regex(x.content, case["quotes"])
                if count:
                    ctx.count("sq.regex_checks")
                    ctx.count("sq.quotes_replaced", sum(1 for c1, c2 in zip(x.content, y.content) if c1 in "\"'" and c1 != c2) if len(x.content) == len(y.content) else 1)
                if not re.fullmatch(rx, y.content, re.S):
                    errs.append(("smartquotes-not-in-place", f"text {x.content!r} -> {y.content!r} is not a quote-for-quote substitution (quotes={case['quotes']!r})"))
    if count:
        if changed:
            ctx.count("text_changed_docs")
        if trig:
            ctx.count("nontext_with_triggers")
        if changed and trig:
            ctx.nontrivial(repr(case["conf"]), case["mode"], repr(case["quotes"]), src)
    if case.get("expect_identical"):
        ha, hb = off.render(src), on.render(src)
        if ha != hb:
            errs.append(("escaped-text-rewritten", f"{ha!r} -> {hb!r}"))
    return errs


def check_case(ctx, case, minimize=True):
    ctx.count("evaluations")
    ctx.current = case
    errs = examine(ctx, case, True)
    if errs is None:
        ctx.count("skipped.exception")
        return
    ctx.count("twins")
    ctx.count("mode." + case["mode"])
    if isinstance(case["quotes"], list):
        ctx.count("quotes_list_values")
    for key in sorted({k for k, _ in errs}):
        msg = next(m for k, m in errs if k == key)
        c = case
        if minimize and not ctx.replaying and "literal" not in case:
            def fails(s, key=key):
                e = examine(ctx, dict(case, src=s))
                return bool(e) and any(k == key for k, _ in e)
            c = dict(case, src=minimize_text(case["src"], fails, 3.0))
            e2 = examine(ctx, c)
            if e2:
                msg = next((m for k, m in e2 if k == key), msg)
        ctx.violation(key, f"{msg} | mode={c['mode']} quotes={c['quotes']!r} conf={c['conf']} src={c['src']!r}", c)


def replay(ctx, case):
    if "want" in case:
        entity_trigger_case(ctx, case)
    else:
        check_case(ctx, case, minimize=False)


DENSE = ["(Tm)", "(tM)", "(C)", "(R)", "(TM)", "(P)", "(p)", "\"", "'", "\"a\"", "'b'", "it's", "'tis", "\"'x'\"", "--", "---", "...", "....", "(c)", "(C)", "(tm)", "(r)", "(p)", "+-", ",,", "???", "!!!!", "?..", "!...", " -- ",
         "a--b", "1-2", "`\"c\" -- 'd'`", "<http://a.b/'x'--y>", "<http://a.b/(c)(tm)...+->", "<x:(r)>", "<m@n.o>", "<o'brien@ex.com>", "<a--b@c.de>", "<x..y+-z@q.uv>", "<it's@me.org> <http://h.i/'j'>", "<b title=\"q\">", "</b>", "[\"l\"](u \"ti'tle\")", "![\"i\" ...](s '(c)')", "*\"e\"*", "**'s'**",
         "_a_\"", "\"_b_", "\n", "  \n", " ", "x", "y'", "'z", "http://x.y/\"q\"", "&quot;", "\\\"", "\\'", "&#39;", "&hellip;", "\\(c\\)", "(c\\)", "\\-\\-", "-\\-", "1'2\"",
         "'''", "\"\"\"", "«", "’", "”", "\xa0", "́", "'́", "[r]", "\"[r]\"", "| \"c\" |"]


def dense_doc(rng):
    n = rng.randint(1, 14)
    s = "".join(rng.choice(DENSE) + rng.choice(["", "", " "]) for _ in range(n))
    pre = rng.choice(["", "", "# ", "> ", "- ", "1. ", "| h |\n|-|\n| "])
    return pre + s + rng.choice(["", "\n", "\n\n[r]: /u \"(c) 'q'\"\n", "\n\n```\n\"code\" -- (c)\n```\n", "\n\n    \"ind\" ...\n", "\n\n<div>\"html\" --</div>\n"])


def esc_bs(t):
    return "".join("\\" + c if c in PUNCT else c for c in t)


def run(ctx):
    rng = ctx.rng
    presets = [{"preset": "js-default"}, {"preset": "commonmark"}, {"preset": "js-default", "enable": ["table", "strikethrough"]},
               {"preset": "gfm-like", "stub_linkify": True}, {"preset": "commonmark", "options": {"html": False}}]
    n = ctx.scale(200000, 5000000)
    for k in range(n):
        r = rng.random()
        src = dense_doc(rng) if r < 0.6 else gen.strip_surrogates(gen.any_doc(rng))[:2500]
        case = {"conf": rng.choice(presets), "mode": rng.choice(["replacements", "smartquotes", "both"]), "quotes": rng.choice(QUOTES), "src": src}
        check_case(ctx, case)
        if k % 2999 == 0:
            ctx.sample(dict(case, src=src[:160]))
    # an autolink next to the very same characters as ordinary text (inside emphasis, a link, after a code span): only the latter change
    urls = ["http://a.b/'q'", "http://a.b/it's", "http://x.y/a--b...c", "m'n@o.pq", "http://e.f/(c)+-\"z\"", "ftp://g.h/'", "http://i.j/''k''"]
    shapes = ["<{u}>\n*{u}*", "<{u}>`c`*{u}*", "*{u}* <{u}>", "<{u}> **{u}** <{u}>", "[{u}](/l) <{u}> _{u}_", "<{u}> {u}", "> <{u}>\n> *{u}*", "<{u}>![i](s)~~{u}~~", "<{u}><{u}> *{u}* *{u}*"]
    for k in range(ctx.scale(12000, 300000)):
        src = rng.choice(shapes).replace("{u}", rng.choice(urls)) + "\n"
        ctx.count("wl.autolink_twin_text")
        check_case(ctx, {"conf": rng.choice(presets[:3]), "mode": rng.choice(["replacements", "smartquotes", "both"]), "quotes": rng.choice(QUOTES), "src": src}, minimize=False)
    # escape immunity (1): fully escaped inputs are byte-identical
    for k in range(ctx.scale(20000, 500000)):
        t = "".join(rng.choice(DENSE[:30] + ["a", " ", "é"]) for _ in range(rng.randint(1, 8))).replace("\n", " ").strip() or "\""
        src = esc_bs(t)
        ctx.count("escaped_full.twins")
        check_case(ctx, {"conf": rng.choice(presets), "mode": rng.choice(["replacements", "smartquotes", "both"]), "quotes": rng.choice(QUOTES), "src": src, "expect_identical": True},
                   minimize=False)
    # escape immunity (3): trigger sequences with one character written as a character reference, between literal triggers
    for k in range(ctx.scale(30000, 600000)):
        src, want = gen_entity_trigger(rng)
        if "..." in want.replace("…", "") and False:
            continue
        entity_trigger_case(ctx, {"conf": rng.choice(presets[:3]), "mode": rng.choice(["replacements", "both"]), "quotes": "“”‘’", "src": src, "want": want})
    # escape immunity (2): paragraphs where the harness knows which characters came from escapes/references
    for k in range(ctx.scale(20000, 500000)):
        q = rng.choice(QUOTES)
        qs = list(q)
        src, rx = [], []
        for _ in range(rng.randint(1, 10)):
            p = rng.random()
            if p < 0.3:
                ch = rng.choice("\"'")
                src.append(rng.choice(["\\" + ch, "&quot;" if ch == '"' else "&#39;", "&#x22;" if ch == '"' else "&#x27;", "&#%d;" % ord(ch)]))
                rx.append(re.escape(ch))
                ctx.count("escaped_mixed.literal_quotes")
            elif p < 0.6:
                ch = rng.choice("\"'")
                src.append(ch)
                rx.append("(?:\"|%s|%s)" % (re.escape(qs[0]), re.escape(qs[1])) if ch == '"' else "(?:'|’|%s|%s)" % (re.escape(qs[2]), re.escape(qs[3])))
            else:
                w = rng.choice(["a", "b ", " c", "x1", " ", "é", ". ", ", ", "(", ")", "1"])
                src.append(w)
                rx.append(re.escape(w))
        s = "".join(src)
        if s.strip() != s or not s or s[0] in "#>-+*=|`~<[\\&" or re.match(r"^\d+[.)]", s) or "\n" in s or "  " in s:
            continue
        ctx.count("escaped_mixed.twins")
        check_case(ctx, {"conf": {"preset": "js-default"}, "mode": "smartquotes", "quotes": q, "src": s, "literal": "".join(rx)}, minimize=False)


TRIG = {"(c)": "©", "(C)": "©", "(r)": "®", "(tm)": "™", "(TM)": "™", "+-": "±", "...": "…"}


def entity_trigger_case(ctx, case):
    """characters written as character references are never rewritten: literal triggers around an entity-spelled one"""
    ctx.count("evaluations")
    ctx.current = case
    off, on = make_pair(case)
    try:
        h_on = on.render(case["src"])
    except Exception as e:
        ctx.violation("typographer-on-raises", f"{type(e).__name__}: {e} | src={case['src']!r}", case)
        return
    ctx.count("entity_triggers.twins")
    ctx.nontrivial("enttrig", case["src"], case["mode"])
    want = "<p>" + case["want"].replace("&", "&amp;").replace("<", "&lt;").replace(">", "&gt;").replace('"', "&quot;") + "</p>\n"
    if h_on != want:
        ctx.violation("entity-written-text-rewritten", f"got {h_on!r}, want {want!r} | src={case['src']!r} mode={case['mode']}", case)


def gen_entity_trigger(rng):
    parts_src, parts_want = [], []
    for _ in range(rng.randint(2, 5)):
        t = rng.choice(list(TRIG))
        if rng.random() < 0.5 or t == "...":   # ("..." minus one dot still holds the trigger "..")
            parts_src.append(t)
            parts_want.append(TRIG[t])
        else:
            i = rng.randrange(len(t))
            ch = t[i]
            ent = rng.choice(["&#%d;" % ord(ch), "&#x%x;" % ord(ch), "&#X%X;" % ord(ch)])
            parts_src.append(t[:i] + ent + t[i + 1:])
            parts_want.append(t)
    sep = rng.choice([" x ", " ", " y, "])
    return "w " + sep.join(parts_src) + " z", "w " + sep.join(parts_want) + " z"


@selftest
def _selftest():
    assert re.fullmatch(sq_regex("a \"b\" 'c'", "“”‘’"), "a “b” ‘c’")
    assert not re.fullmatch(sq_regex("a \"b\"", "“”‘’"), "a “b” ")
    from vf.worker import Ctx
    ctx = Ctx("C19", "quick", 0, 0, 1)
    assert examine(ctx, {"conf": {"preset": "js-default"}, "mode": "both", "quotes": "“”‘’", "src": "\"a\" -- `\"c\"` <http://x.y/'q'>\n"}) == []
