"""C10 — rule and option switches have exactly their documented effect."""
from __future__ import annotations

import re

from vf import conf as C
from vf import gen
from vf import workload as W
from vf.selftests import selftest
from vf.util import first_diff, minimize_text, stream, walk

LEVEL = "exploration"
RULE = (
    "cases = (preset, random enable/disable history through MarkdownIt.enable/disable in string and list form, options, source). "
    "(a) set-inclusion monitor: every observed token type (all levels) and env entry must have an enabled producer (table*<-table, "
    "code_block<-code, fence, blockquote, hr, lists<-list, html_block<-html_block&html, heading<-heading|lheading, "
    "references/definition<-reference(&inline_definitions), softbreak<-newline, hardbreak<-newline|escape, code_inline<-backticks, "
    "s<-strikethrough, em/strong<-emphasis, link<-link|autolink|linkify, image, html_inline<-html_inline&html; zero preset: only "
    "paragraph/inline/text). (b) twins: input without '|' identical with table on/off, input without '~~' identical with "
    "strikethrough on/off. (c) inline_definitions/store_labels twins: stream minus definition tokens and meta['label'], env, and HTML "
    "(modulo line breaks directly after a tag) unchanged. (d) the three option routes give identical streams/HTML. "
    "Non-trivial = configuration with >=1 rule off and an input containing that rule's trigger; distinct by (conf id, source)."
)
ASSUMPTIONS = [
    "histories also insert inert plug-in rules next to built-in ones, warm the compiled chains with a parse, and call enableOnly on the inline/inline2 chains",
    "a rule counts as enabled by the set semantics of the enable/disable calls in the history (per chain registering a rule of that name), starting from the preset's active rules",
    "attribute route compared for the options that have an attribute on OptionsDict (the ten core options)",
]

BLOCK_PRODUCERS = {
    "table_open": "table", "table_close": "table", "thead_open": "table", "thead_close": "table", "tbody_open": "table", "tbody_close": "table",
    "tr_open": "table", "tr_close": "table", "th_open": "table", "th_close": "table", "td_open": "table", "td_close": "table",
    "code_block": "code", "fence": "fence", "blockquote_open": "blockquote", "blockquote_close": "blockquote", "hr": "hr",
    "bullet_list_open": "list", "bullet_list_close": "list", "ordered_list_open": "list", "ordered_list_close": "list",
    "list_item_open": "list", "list_item_close": "list",
}
TRIGGERS = {
    "table": r"\|", "code": r"(?m)^(    |\t)", "fence": r"```|~~~", "blockquote": r"(?m)^ {0,3}>", "hr": r"(?m)^ {0,3}([-*_] *){3,}$",
    "list": r"(?m)^ {0,3}([-+*]|\d+[.)])( |$)", "reference": r"(?m)^ {0,3}\[[^\]]+\]:", "html_block": r"(?m)^ {0,3}<", "heading": r"(?m)^ {0,3}#",
    "lheading": r"(?m)^ {0,3}(=+|-+) *$", "autolink": r"<[a-zA-Z][^ >]*[:@]", "backticks": r"`", "emphasis": r"[*_]", "entity": r"&[#a-zA-Z]",
    "escape": r"\\", "html_inline": r"<[a-zA-Z/!?]", "image": r"!\[", "link": r"\[", "newline": r"\n", "strikethrough": r"~~",
}
TRIGGERS = {k: re.compile(v) for k, v in TRIGGERS.items()}
OPTIONAL = list(TRIGGERS)


def floors(tier):
    f = {"a.streams": 50000 if tier == "quick" else 1500000, "b.table_twins": 8000, "b.strike_twins": 8000, "c.twins": 10000, "c.definitions_seen": 5000,
         "c.labels_seen": 3000, "d.routes": 2000, "zero_streams": 500}
    for r in OPTIONAL:
        f["trigger_present_rule_off." + r] = 300
    return f


def build(hist):
    """hist: {"preset", "options", "steps": [["enable"|"disable", name-or-list], ...]}"""
    from markdown_it import MarkdownIt
    md = MarkdownIt(hist["preset"], hist.get("options") or None)
    if hist.get("stub_linkify"):
        md.linkify = C.StubLinkify()
    for step in hist.get("steps", []):
        op, names = step[0], step[1]
        if op == "plugin":
            # a plug-in registers an inert rule next to a built-in one (public Ruler.before/after/push)
            chain, how, ref, nm = names
            ruler = md.inline.ruler2 if chain == "inline2" else md[chain].ruler
            fn = {"core": (lambda s: None), "inline2": (lambda s: None), "block": (lambda s, a, b, silent: False), "inline": (lambda s, silent: False)}[chain]
            if how == "at":
                # a plug-in wraps a built-in rule (same function, same alt): that must not switch the rule on or off
                rule = next(r for r in ruler.__rules__ if r.name == ref)
                ruler.at(ref, rule.fn, {"alt": list(rule.alt)})
            elif how == "push" and chain != "block":
                ruler.push(nm, fn)
            else:
                getattr(ruler, how if how != "push" else "before")(ref, nm, fn)
        elif op == "parse":
            md.parse("warm *up* `x` [l](u)\n\n> q\n")   # compiles the rule chains
        elif op == "enableOnly":
            chain, lst = names
            (md.inline.ruler2 if chain == "inline2" else md[chain].ruler).enableOnly(list(lst), True)
        else:
            getattr(md, op)(names)
    if hist.get("stub_linkify"):
        md.linkify = C.StubLinkify()
    return md


_preset_active = {}


def switched_on(hist):
    """rule activity by the SET SEMANTICS OF THE CALLS in the history (not by what the instance reports): per chain, the preset's
    active rules, then every enable/disable step applied to each chain that registers a rule of that name"""
    from markdown_it import MarkdownIt
    p = hist["preset"]
    if p not in _preset_active:
        m = MarkdownIt(p)
        _preset_active[p] = (m.get_active_rules(), m.get_all_rules())
    act, allr = _preset_active[p]
    on = {ch: set(v) for ch, v in act.items()}
    for step in hist.get("steps", []):
        op, names = step[0], step[1]
        if op in ("plugin", "parse"):
            continue
        if op == "enableOnly":
            chain, lst = names
            on[chain] = {n for n in lst if n in allr[chain]}
            continue
        names = [names] if isinstance(names, str) else names
        for ch in on:
            for n in names:
                if n in allr[ch]:
                    (on[ch].add if op == "enable" else on[ch].discard)(n)
    return on


def producers_ok(md, toks, env, act=None):
    """(a): returns list of (key, msg)"""
    act = act or md.get_active_rules()
    blk, inl, inl2, core = set(act["block"]), set(act["inline"]), set(act["inline2"]), set(act["core"])
    html = bool(md.options.get("html"))
    linkify_on = bool(md.options.get("linkify"))
    errs = []
    for t in toks:
        ty = t.type
        if ty in BLOCK_PRODUCERS:
            need = BLOCK_PRODUCERS[ty]
            if need not in blk:
                errs.append((f"token-without-producer:{need}", f"{ty} although rule {need!r} is disabled"))
        elif ty == "html_block":
            if "html_block" not in blk or not html:
                errs.append(("token-without-producer:html_block", f"html_block with rule {'on' if 'html_block' in blk else 'off'} html={html}"))
        elif ty in ("heading_open", "heading_close"):
            if not ({"heading", "lheading"} & blk):
                errs.append(("token-without-producer:heading", f"{ty} although heading and lheading are disabled"))
            elif t.markup in ("=", "-") and "lheading" not in blk:
                errs.append(("token-without-producer:lheading", "setext heading although lheading is disabled"))
            elif t.markup.startswith("#") and "heading" not in blk:
                errs.append(("token-without-producer:heading", "ATX heading although heading is disabled"))
        elif ty == "definition":
            if "reference" not in blk or not md.options.get("inline_definitions"):
                errs.append(("token-without-producer:reference", "definition token without reference rule / inline_definitions"))
        elif ty in ("paragraph_open", "paragraph_close", "inline"):
            pass
        else:
            errs.append(("unknown-block-token", f"block token type {ty!r} has no documented producer"))
        if ty == "inline":
            for c in walk(t.children or []):
                cy = c.type
                if cy == "text":
                    continue
                bad = None
                if cy == "softbreak":
                    bad = "newline" not in inl and "newline"
                elif cy == "hardbreak":
                    bad = not ({"newline", "escape"} & inl) and "newline|escape"
                elif cy == "code_inline":
                    bad = "backticks" not in inl and "backticks"
                elif cy in ("s_open", "s_close"):
                    bad = not ("strikethrough" in inl and "strikethrough" in inl2) and "strikethrough"
                elif cy in ("em_open", "em_close", "strong_open", "strong_close"):
                    bad = not ("emphasis" in inl and "emphasis" in inl2) and "emphasis"
                elif cy in ("link_open", "link_close"):
                    ok = "link" in inl or "autolink" in inl or (linkify_on and ("linkify" in inl or "linkify" in core))
                    if ok and c.markup == "autolink":
                        ok = "autolink" in inl
                    elif ok and c.markup == "linkify":
                        ok = linkify_on and ("linkify" in inl or "linkify" in core)
                    elif ok:
                        ok = "link" in inl
                    bad = not ok and "link|autolink|linkify"
                elif cy == "image":
                    bad = "image" not in inl and "image"
                elif cy == "html_inline":
                    bad = not ("html_inline" in inl and html) and "html_inline&html"
                else:
                    bad = f"unknown:{cy}"
                if bad:
                    errs.append((f"token-without-producer:{bad}", f"inline token {cy} (markup {c.markup!r}) although {bad} is off"))
    if "references" in env and "reference" not in blk:
        errs.append(("token-without-producer:reference", "env['references'] although the reference rule is disabled"))
    if "duplicate_refs" in env and "reference" not in blk:
        errs.append(("token-without-producer:reference", "env['duplicate_refs'] although the reference rule is disabled"))
    return errs


def strip_defs(sd):
    out = []
    for d in sd:
        if d["type"] == "definition":
            continue
        out.append(d)

    def unlabel(ds):
        for d in ds or []:
            if isinstance(d.get("meta"), dict) and "label" in d["meta"]:
                d["meta"] = {k: v for k, v in d["meta"].items() if k != "label"}
            unlabel(d.get("children"))
    unlabel(out)
    return out


def eval_case(ctx, case, count):
    """returns list of (key, msg)"""
    kind = case["kind"]
    src = case["src"]
    errs = []
    if kind == "a":
        md = build(case["hist"])
        env = {}
        toks = md.parse(src, env)
        act = switched_on(case["hist"])
        errs = producers_ok(md, toks, env, act)
        if count:
            ctx.count("a.streams")
            on = set(act["block"]) | set(act["inline"])
            hit = False
            for r, rx in TRIGGERS.items():
                if r not in on and rx.search(src):
                    ctx.count("trigger_present_rule_off." + r)
                    hit = True
            if case["hist"]["preset"] == "zero" and not case["hist"].get("steps"):
                ctx.count("zero_streams")
                for t in walk(toks):
                    if t.type not in ("paragraph_open", "paragraph_close", "inline", "text"):
                        errs.append(("zero-preset-token", f"zero preset produced {t.type}"))
            if hit:
                ctx.nontrivial("a", repr(case["hist"]), src)
    elif kind == "b":
        rule = case["rule"]
        h_on = dict(case["hist"], steps=case["hist"].get("steps", []) + [["enable", rule]])
        h_off = dict(case["hist"], steps=case["hist"].get("steps", []) + [["disable", rule]])
        e1, e2 = {}, {}
        t1 = build(h_on).parse(src, e1)
        t2 = build(h_off).parse(src, e2)
        d = first_diff(stream(t1), stream(t2))
        if d:
            errs.append((f"extension-not-conservative:{rule}", f"stream differs with {rule} on/off on trigger-free input: {d}"))
        elif e1 != e2:
            errs.append((f"extension-not-conservative:{rule}", "env differs"))
        if count:
            ctx.count("b.table_twins" if rule == "table" else "b.strike_twins")
            ctx.nontrivial("b", rule, repr(case["hist"]), src)
    elif kind == "c":
        base = case["hist"]
        opts = dict(base.get("options") or {})
        opts.update(case["extra"])
        e1, e2 = {}, {}
        md1, md2 = build(base), build(dict(base, options=opts))
        t1 = md1.parse(src, e1)
        t2 = md2.parse(src, e2)
        if count:
            ctx.count("c.twins")
            nd = sum(1 for t in t2 if t.type == "definition")
            nl = sum(1 for t in walk(t2) if isinstance(t.meta, dict) and "label" in t.meta)
            ctx.count("c.definitions_seen", nd)
            ctx.count("c.labels_seen", nl)
            if nd or nl:
                ctx.nontrivial("c", repr(base), repr(case["extra"]), src)
        if case["extra"].get("inline_definitions") and not any(t.type == "definition" for t in t2) and e2.get("references") and "reference" in md2.get_active_rules()["block"]:
            # every recognised definition must have produced a token (checked in detail by C16)
            errs.append(("inline-definitions-missing", "references recorded but no definition token"))
        d = first_diff(stream(t1), strip_defs(stream(t2)))
        if d:
            errs.append(("option-not-additive:stream", f"{case['extra']}: {d}"))
        if e1 != e2:
            errs.append(("option-not-additive:env", f"{case['extra']}: env {e1!r} vs {e2!r}"[:400]))
        h1 = md1.renderer.render(t1, md1.options, e1)
        h2 = md2.renderer.render(t2, md2.options, e2)
        if re.sub(r">\n", ">", h1) != re.sub(r">\n", ">", h2):
            errs.append(("option-not-additive:html", f"{case['extra']}: {h1!r} vs {h2!r}"[:600]))
    elif kind == "d":
        from markdown_it import MarkdownIt
        preset, opts = case["hist"]["preset"], case["opts"]
        m1 = MarkdownIt(preset, opts)
        m2 = MarkdownIt(preset)
        for k, v in opts.items():
            m2.options[k] = v
        m3 = MarkdownIt(preset)
        for k, v in opts.items():
            setattr(m3.options, k, v)
        outs = []
        for m in (m1, m2, m3):
            if preset == "gfm-like":
                m.linkify = C.StubLinkify()
            for op, names in case["hist"].get("steps", []):
                getattr(m, op)(names)
            e = {}
            t = m.parse(src, e)
            outs.append((stream(t), m.renderer.render(t, m.options, e), dict(m.options)))
        for i, nm in ((1, "item"), (2, "attribute")):
            if outs[i][2] != outs[0][2]:
                errs.append((f"option-route:{nm}", f"options differ: {outs[0][2]} vs {outs[i][2]}"[:400]))
            d = first_diff(outs[0][0], outs[i][0])
            if d:
                errs.append((f"option-route:{nm}", f"stream differs from constructor route: {d}"))
            elif outs[0][1] != outs[i][1]:
                errs.append((f"option-route:{nm}", f"HTML differs: {outs[0][1]!r} vs {outs[i][1]!r}"[:400]))
        if count:
            ctx.count("d.routes")
            ctx.nontrivial("d", preset, repr(opts), src)
    return errs


def check_case(ctx, case, minimize=True):
    ctx.count("evaluations")
    ctx.current = case
    try:
        errs = eval_case(ctx, case, True)
    except Exception as e:
        ctx.count("skipped.exception")
        return
    for key in sorted({k for k, _ in errs}):
        msg = next(m for k, m in errs if k == key)
        c = case
        if minimize and not ctx.replaying:
            def fails(s, key=key):
                if case["kind"] == "b" and ("|" in s if case["rule"] == "table" else "~~" in s):
                    return False
                try:
                    return any(k == key for k, _ in eval_case(ctx, dict(case, src=s), False))
                except Exception:
                    return False
            c = dict(case, src=minimize_text(case["src"], fails, 3.0))
        ctx.violation(key, f"{msg} | case={ {k: v for k, v in c.items() if k != 'src'} } src={c['src']!r}", c)


def replay(ctx, case):
    check_case(ctx, case, minimize=False)


def rand_hist(rng, preset=None):
    preset = preset or rng.choice(["commonmark", "js-default", "zero", "gfm-like", "default"])
    hist = {"preset": preset, "steps": []}
    opts = {}
    if preset == "gfm-like":
        hist["stub_linkify"] = True
    if rng.random() < 0.5:
        opts["html"] = rng.random() < 0.5
    if rng.random() < 0.2:
        opts["typographer"] = True
    if rng.random() < 0.2:
        opts["inline_definitions"] = True
    if opts:
        hist["options"] = opts
    k = rng.choice([0, 1, 2, 3, 5, 8, 12])
    pool = OPTIONAL + (["linkify", "replacements", "smartquotes"] if hist.get("stub_linkify") or rng.random() < 0.3 else [])
    names = rng.sample(pool, min(k, len(pool)))
    pending = {"enable": [], "disable": []}
    for nme in names:
        op = rng.choice(["enable", "disable"])
        if rng.random() < 0.5:
            hist["steps"].append([op, nme])            # string form
        else:
            pending[op].append(nme)
    for op, lst in pending.items():
        if lst:
            hist["steps"].insert(rng.randint(0, len(hist["steps"])), [op, lst])  # list form
    # later steps may override earlier ones for the same rule: that is part of the history
    if rng.random() < 0.2 and names:
        hist["steps"].append([rng.choice(["enable", "disable"]), rng.choice(names)])
    # plug-in rules inserted next to built-in ones, cache-warming parses, and direct enableOnly on a chain that may become empty
    if rng.random() < 0.3:
        for _ in range(rng.randint(1, 3)):
            chain = rng.choice(["block", "inline", "inline", "inline2", "core"])
            ref = rng.choice({"block": ["table", "fence", "list", "paragraph", "heading", "blockquote", "hr"], "inline": ["emphasis", "link", "image", "autolink", "backticks", "text", "strikethrough", "entity"],
                              "inline2": ["emphasis", "balance_pairs", "strikethrough"], "core": ["inline", "block", "text_join", "replacements"]}[chain])
            how = rng.choice(["before", "after", "before", "at", "at"])
            if ref == "paragraph" and how == "after":
                how = "before"
            hist["steps"].insert(rng.randint(0, len(hist["steps"])), ["plugin", [chain, how, ref, f"plug{len(hist['steps'])}"]])
    if rng.random() < 0.3:
        hist["steps"].insert(rng.randint(0, len(hist["steps"])), ["parse", None])
        if rng.random() < 0.5:
            chain = rng.choice(["inline2", "inline2", "inline"])
            lst = rng.choice([[], [], ["nope"], ["balance_pairs", "fragments_join"], ["text"], ["text", "emphasis"], ["emphasis"]])
            if chain == "inline" and "text" not in lst:
                lst = lst + ["text"]
            hist["steps"].append(["enableOnly", [chain, lst]])
    return hist


def run(ctx):
    rng = ctx.rng
    defs_docs = ["[r]: /u 't'\n\n[x][r] ![i][r] [r]\n", "- [a]: /1\n- [a]: /2\n\n> [b]: <u v>\n> 'multi\n> line'\n\n[a] [b] [c]\n\n[c]: /3\n",
                 "[Foo Bar]: /u\n[foo  bar]: /dup\n\n[FOO BAR][] ![z][foo bar]\n", "para\n[r]: /u\n\n[r]\n", "[r]: /u\n===\n\n[r]\n"]
    n = ctx.scale(120000, 3000000)
    for k in range(n):
        src = gen.strip_surrogates(gen.any_doc(rng))[:3000]
        hist = rand_hist(rng)
        r = rng.random()
        if r < 0.55:
            check_case(ctx, {"kind": "a", "hist": hist, "src": src})
            if k % 1999 == 0:
                ctx.sample({"kind": "a", "hist": hist, "src": src[:150]})
        elif r < 0.75:
            rule = rng.choice(["table", "strikethrough"])
            s2 = src.replace("|", "") if rule == "table" else re.sub(r"~~+", "~", src)
            while rule == "strikethrough" and "~~" in s2:
                s2 = s2.replace("~~", "~")
            check_case(ctx, {"kind": "b", "hist": hist, "rule": rule, "src": s2})
        elif r < 0.93:
            extra = rng.choice([{"inline_definitions": True}, {"store_labels": True}, {"inline_definitions": True, "store_labels": True}])
            if rng.random() < 0.5:
                src = rng.choice(defs_docs) + src
            h = dict(hist)
            if h.get("options"):
                h["options"] = {k2: v for k2, v in h["options"].items() if k2 != "inline_definitions"}
            check_case(ctx, {"kind": "c", "hist": h, "extra": extra, "src": src})
        else:
            opts = {}
            # (None / 0 / 1 are what callers pass for "off"/"on" besides the booleans; the routes must agree on them as well)
            for kk, vals in (("html", [True, False, True, False, None, 0, 1]), ("typographer", [True, False, True, False, None, 1]), ("breaks", [True, False, None, 1]),
                             ("xhtmlOut", [True, False, None, 0]), ("langPrefix", ["l-", "", "x y-"]),
                             ("quotes", ["«»‹›", ["a", "b", "c", "d"], ["«\xa0", "\xa0»", "‹\xa0", "\xa0›"], ("``", "''", "`", "'"), ["<<", ">>", "<", ">"]]),
                             ("maxNesting", [3, 50, 20, 100]), ("linkify", [False])):   # (options that have an attribute on OptionsDict)
                if rng.random() < 0.4:
                    opts[kk] = rng.choice(vals)
            if opts:
                h = {"preset": hist["preset"], "steps": hist["steps"]}
                check_case(ctx, {"kind": "d", "hist": h, "opts": opts, "src": src})


@selftest
def _selftest():
    from markdown_it import MarkdownIt
    md = MarkdownIt("zero")
    toks = MarkdownIt("commonmark").parse("> *a*\n")
    errs = producers_ok(md, toks, {})
    keys = {k for k, _ in errs}
    assert "token-without-producer:blockquote" in keys and "token-without-producer:emphasis" in keys, keys
    assert producers_ok(MarkdownIt("commonmark"), toks, {}) == []
