"""setup_cmd: sanity of the framework itself (imports, repo location, monitors reject canned bad data)."""
import os, sys
def main():
    repo = os.path.abspath(os.environ.get("VERIF_REPO", "/repo"))
    sys.path.insert(0, repo)
    import markdown_it
    assert os.path.abspath(markdown_it.__file__).startswith(repo + os.sep), markdown_it.__file__
    assert sys.version_info >= (3, 12), "sys.monitoring needed"
    from vf import selftests
    n = selftests.run_all()
    print(f"selftest ok: {n} canned monitor checks")
if __name__ == "__main__":
    main()
