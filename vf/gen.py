"""Workload generators (DESIGN.md section 2).  All randomness comes from the rng passed in."""
from __future__ import annotations

import glob
import json
import os
import re

WORDS = ["a", "b", "foo", "bar", "x1", "Baz", "é", "ß", "的", "q", "Zz", "i", "lorem", "\U0001d504", "n0"]

INLINE_ATOMS = [
    "*", "**", "***", "_", "__", "~~", "~", "~~~~~", "`", "``", "```", "[", "]", "(", ")", "![", "<", ">", "&",
    "&amp;", "&#35;", "&#x22;", "&lt;", "&copy;", "&ngE;", "&#0;", "&#xD800;", "&nosuch;", "&#99999999;",
    "\\", "\\*", "\\[", "\\\\", "\\`", "\\<", "\\&", "\\\n", "!", "\"", "'", "--", "---", "...", "(c)", "(tm)", "(Tm)", "(tM)", "(C)", "(R)", "(&#99;)", "+-", "|", ":",
    "http://x.y/z", "<http://a.b>", "<http://a.b/'q'?x=\"1\"&y>", "<a@b.c>", "<b>", "</b>", "<i class=\"x\">", "<!-- c -->",
    "<?php ?>", "<![CDATA[x]]>", "<!X y>", "<a href=\"u\">", "</a>",
    "[r]", "[r][]", "[t][r]", "[R]", "](u)", "](<u v> \"t\")", "](/u 't')", "]( /u (t) )", "[x](javascript:1)", "![i](/s \"t\")",
    "  ", " ", " ", " ", "\t", "  \n", "\n", "\n", "#", "=", "-", "+", "1.", "^", "{", "}", "\xa0", " ", "​",
    "\x0b", "\x0c", "\x00", "�", "́", "\U0001f600", " ", "¿", "«", "…", "–",
    # characters str.splitlines() / str.isspace() treat specially but Markdown does not (and vice versa)
    "\x1c", "\x1d", "\x1e", "\x85", "\u2028", "\u2029", "\u200b", "\u2060", "\ufeff", "\u180e", "\u3000", "\u1680",
    "~~~", "~~a~~~", "[~~b~~~](u)", "*\u200bz\u200b*",
    "<o'brien@ex.com>", "<a--b@c.de>", "<x..y@z.uv>", "javascript:q", "data:text/html,r", "1\u00b2", "\u2460", "\u0662", "[*x <http://a.b>](u) y*", "[<m@n.o> ~~s](v) t~~",
]

LINE_STARTS = [
    "", "", "", "", "", " ", "  ", "   ", "    ", "     ", "\t", " \t", "  \t", "> ", ">", ">\t", ">  ", ">> ", "> > ",
    "- ", "* ", "+ ", "-\t", "-   ", "-    ", "-     ", "1. ", "2) ", "10. ", "007. ", "123456789. ", "1234567890. ", "0) ",
    "# ", "## ", "###### ", "####### ", "#", "#\t",
    "```", "~~~", "````", "``` info", "~~~ a`b", "```\t", "---", "***", "___", "- - -", "* * *", "===", "= ", "--", "==",
    "[r]: ", "[r]: /u \"t\"", "[R]: <u v>", "[r]:\n/u", "[q]: /v\n'multi\nline'", "<div>", "</div>", "<!--", "-->", "<?", "?>",
    "<pre>", "</pre>", "<script>", "<![CDATA[", "]]>", "<!A", "<custom-el attr='1'>", "</x>",
    "| a | b |", "|---|---|", "a | b", "-|-", ":-:|-:", "|:-|", "| x |", "a|b|c", "    code", "\tcode", "      six",
]


def inline(rng, n=None):
    n = n if n is not None else rng.randint(0, 8)
    out = []
    for _ in range(n):
        if rng.random() < 0.45:
            out.append(rng.choice(WORDS))
        else:
            out.append(rng.choice(INLINE_ATOMS))
        if rng.random() < 0.3:
            out.append(" ")
    return "".join(out)


def soup_line(rng):
    s = ""
    for _ in range(rng.choice([0, 1, 1, 1, 2, 2, 3])):
        s += rng.choice(LINE_STARTS)
    s += inline(rng)
    return s


def soup(rng, maxlines=12, final_newline=None):
    """W-soup"""
    n = rng.randint(0, maxlines)
    lines = []
    for _ in range(n):
        r = rng.random()
        if r < 0.15:
            lines.append("")
        elif r < 0.2:
            lines.append(rng.choice([" ", "  ", "\t", ">", "> ", "-", "   ", "    ", ">\t", "1."]))
        else:
            lines.append(soup_line(rng))
    s = "\n".join(lines)
    if final_newline is None:
        final_newline = rng.random() < 0.7
    if final_newline and s:
        s += "\n"
    return s


# ---------------------------------------------------------------------------------------------
# W-gram: grammar-directed, well-formed nested documents

URLS = ["/u", "http://x.y/z?a=1&b=2", "<u v>", "#frag", "/a(b)c", "mailto:a@b.c", "/ü%20/%zz", "HTTP://EX.com/\\*"]
TITLES = ["", "", ' "t"', " 't&amp;'", " (p q)", ' "a\\"b"', " 'two\nlines'"]
LABELS = ["r", "R", "foo bar", "Foo  Bar", "ß", "SS", "ẞ", "ǅ", "İ", "σς", "K", "a\\]b", "x*y*"]


def g_text(rng, n=None):
    n = n or rng.randint(1, 4)
    return " ".join(rng.choice(WORDS) for _ in range(n))


def g_inline(rng, depth=0, nolink=False):
    """one well-formed inline fragment"""
    r = rng.random()
    t = g_text(rng)
    if depth > 3:
        return t
    sub = lambda: g_inline(rng, depth + 1, nolink)  # noqa: E731
    if r < 0.18:
        return t
    if r < 0.26:
        return f"*{sub()}*"
    if r < 0.34:
        return f"**{sub()}**"
    if r < 0.38:
        return f"_{sub()}_"
    if r < 0.42:
        return f"~~{sub()}~~"
    if r < 0.50:
        ticks = "`" * rng.randint(1, 3)
        body = rng.choice([t, " " + t + " ", t + " ` " + t if len(ticks) > 1 else t, "  ", " \xa0 ", t + "\n" + t, "*x*", "<b>", "&amp;"])
        return f"{ticks}{body}{ticks}"
    if r < 0.60 and not nolink:
        return f"[{g_inline(rng, depth + 1, True)}]({rng.choice(URLS)}{rng.choice(TITLES)})"
    if r < 0.68:
        return f"![{sub()}]({rng.choice(URLS)}{rng.choice(TITLES)})"
    if r < 0.74 and not nolink:
        lab = rng.choice(LABELS)
        return rng.choice([f"[{lab}]", f"[{lab}][]", f"[{t}][{lab}]", f"![{t}][{lab}]"])
    if r < 0.79 and not nolink:
        return rng.choice(["<http://a.b/c?d=e&f>", "<mailto:x@y.z>", "<a@b.c>", "<http://a.b/'x'\"y\">", "<HTTPS://É.com/—>"])
    if r < 0.84:
        return rng.choice(["&amp;", "&#35;", "&#x1F600;", "&copy;", "&nosuch;", "&#0;", "&Tab;", "&quot;"])
    if r < 0.89:
        return "\\" + rng.choice("!\"#$%&'()*+,-./:;<=>?@[\\]^_`{|}~a\n")
    if r < 0.93:
        return rng.choice(["<b>", "</b>", "<i x='1'>", "<!-- c -->", "<?p?>", "<br/>", "<a href=\"u\">in</a>"])
    if r < 0.96:
        return t + rng.choice(["  \n", "\\\n", "\n"]) + t
    return rng.choice(['"q"', "'s'", "--", "...", "(c)", "(TM)", "+-", "!!!!", "??..", "a -- b --- c", 'he said "it\'s"'])


def g_para_lines(rng, n=None):
    n = n or rng.choice([1, 1, 1, 2, 2, 3])
    out = []
    for _ in range(n):
        parts = [g_inline(rng) for _ in range(rng.randint(1, 3))]
        out.extend(" ".join(parts).split("\n"))
    # a paragraph line must not start with block syntax or be blank
    res = []
    for l in out:
        l = l.strip(" ")
        if not l or re.match(r"^(\s|[-+*>#=~`|<\[]|\d+[.)]|_{3})", l):
            l = "w " + l
        res.append(l)
    return res


def g_block(rng, depth, width=0):
    """returns list of lines (no newline chars) for one block"""
    r = rng.random()
    if depth >= 4:
        r = r * 0.55
    if r < 0.28:
        return g_para_lines(rng)
    if r < 0.34:
        return ["#" * rng.randint(1, 6) + " " + g_inline(rng).replace("\n", " ").strip() + rng.choice(["", " #", " ##  "])]
    if r < 0.38:
        ls = g_para_lines(rng, 1)
        return ls + [rng.choice(["===", "---", "=", "-----   "])]
    if r < 0.44:
        f = rng.choice(["```", "~~~", "````", "~~~~~"])
        info = rng.choice(["", "", "py", " js extra", "a&amp;b", "x\\*y", "<i>"])
        if f[0] == "`":
            info = info.replace("`", "")
        body = [rng.choice(["code", "  indented", "", "\tt", "> q", "- l", "``", "<b>&amp;", "    four", "~~~" if f[0] == "`" else "```"]) for _ in range(rng.randint(0, 4))]
        close = rng.choice([f, f, f + f[0], f + "  ", None])
        return [f + info] + body + ([close] if close else [])
    if r < 0.49:
        body = [rng.choice(["code", "  more", "\ttab", "<x>", "* y", "a  ", "&amp;"]) for _ in range(rng.randint(1, 3))]
        lines = []
        for i, b in enumerate(body):
            lines.append("    " + b)
            if i + 1 < len(body) and rng.random() < 0.3:
                lines.append(rng.choice(["", "  ", "      "]))
        return lines
    if r < 0.53:
        return [rng.choice(["---", "***", "___", "- - -", "*  *  *", "_____", " ***", "   ---  "])]
    if r < 0.58:
        k = rng.randint(0, 3)
        if k == 0:
            return ["<div>", g_text(rng), "</div>"]
        if k == 1:
            return ["<!-- c", "", "*x* -->"]
        if k == 2:
            return ["<pre>", "", "  *x*", "</pre> t"]
        return ["<custom a='1'>", "*emph*"]
    if r < 0.64:
        lab = rng.choice(LABELS)
        u = rng.choice(URLS)
        t = rng.choice(TITLES)
        if "\n" in t:
            t = " 'one'"
        return [f"[{lab}]: {u}{t}"] + ([f"[{rng.choice(LABELS)}]: {rng.choice(URLS)}"] if rng.random() < 0.3 else [])
    if r < 0.70:
        ncol = rng.randint(1, 3)
        hdr = "| " + " | ".join(g_text(rng, 1) for _ in range(ncol)) + " |"
        sep = "|" + "|".join(rng.choice(["---", ":--", "--:", ":-:"]) for _ in range(ncol)) + "|"
        rows = ["| " + " | ".join(g_inline(rng, 2).replace("\n", " ").replace("|", "\\|") for _ in range(rng.randint(1, ncol + 1))) + " |" for _ in range(rng.randint(0, 3))]
        return [hdr, sep] + rows
    if r < 0.85:
        # block quote
        inner = g_blocks(rng, depth + 1, rng.randint(1, 3))
        mark = rng.choice(["> ", "> ", ">", ">  "])
        out = []
        lazy_ok = False
        for l in inner:
            if lazy_ok and l and rng.random() < 0.15 and not re.match(r"^(\s|[-+*>#=~`|<\[]|\d+[.)]|_{3})", l):
                out.append(l)  # lazy continuation
            else:
                out.append((mark + l) if l or mark != "> " else rng.choice([">", "> "]))
            lazy_ok = bool(l) and not re.match(r"^\s*([-+*>#=~`|<\[]|\d+[.)])", l) and not l.startswith("    ")
        return out
    # list
    ordered = rng.random() < 0.4
    items = rng.randint(1, 3)
    loose = rng.random() < 0.35
    start = rng.choice([1, 1, 2, 7, 0, 10, 123456789])
    delim = rng.choice([".", ")"])
    bullet = rng.choice("-+*")
    out = []
    for i in range(items):
        m = (f"{start + i}{delim}" if ordered else bullet) + " " * rng.choice([1, 1, 1, 2, 3, 4])
        inner = g_blocks(rng, depth + 1, rng.choice([1, 1, 2, 3]))
        if inner and (inner[0] == "" or inner[0].startswith("    ")):
            inner = ["w"] + inner
        w = len(m)
        for j, l in enumerate(inner):
            if j == 0:
                out.append(m + l)
            else:
                out.append((" " * w + l) if l else "")
        if loose and i + 1 < items:
            out.append("")
    return out


def g_blocks(rng, depth, n):
    out = []
    prev_kind = None
    for i in range(n):
        b = g_block(rng, depth)
        if i:
            # blank line between blocks most of the time
            if rng.random() < 0.8 or (out and out[-1] != "" and not re.match(r"^(#|```|~~~|---|\*\*\*)", b[0])):
                out.append("")
        out.extend(b)
    return out


def gram(rng, nblocks=None, final_newline=True):
    """W-gram"""
    n = nblocks or rng.randint(1, 5)
    s = "\n".join(g_blocks(rng, 0, n))
    return s + ("\n" if final_newline else "")


# ---------------------------------------------------------------------------------------------
# W-lines: bounded line-vocabulary sweep

LINE_VOCAB_SMALL = [
    "", " ", "    ", "\t", ">", "> ", ">a|b", "> a|b", "> -|-", ">-|-", "a|b", "-|-", "-", "- a", "-  ", "  - b", "1.", "1. a",
    "    c", "\tc", "```", "~~~", "> ```", "#", "# h", "===", "---", "[r]: /u", "<div>", "a", "  a", "> > q", "* * *", "[r]",
    # a marker followed by white space that is not space/tab, then a tab (whitespace classification differs between helpers)
    ">\xa0\tx", "-\x0c\ty",
]
LINE_VOCAB_EXTRA = [
    "   ", "     ", ">\t", ">  ", "> >", "- > a", "> - a", "-\t", "+", "2)", "10. x", "   - c", "      d", "####### n", "## h ##",
    "= ", "--", "***", "_ _ _", "[r]: <", "[r]:", "[r]: /u 't", "'", "</div>", "<!--", "-->", "<?", "<pre>", "|", "|-", ":-:",
    "a|", "`", "``", "\\", "*a", "a*", "![", "](", "&amp;", "\x00", "\xa0", "\x0b", "> [r]: /u", "- [r]: /u", ">    c", "-     c",
    "1². x", "1¹) y", "1٢. z", "2①. w", "٣. v", "\ufeff    code", "\ufeff<div>", "\ufeff# h", "* + * * *", "- 1. - - -", "* 2) ***", "- + - -",
    "[f]: /u \"a\\", "b\"", "> [f]: /u 'c\\", "> d'", "javascript:x www.ex.com", "file:///e a@b.co", "\\*www.ex.com and javascript:y",
    ">\u2003\t", ">\x0b\tq", "1.\u3000\tz", "#\xa0\th", "```\xa0i", ">\x85\t", "> \xa0\tx", "\xa0>\tx", "-\u2028\tl", "\x0c- a", "\u2029", "a\x1cb",
]


def lines_cases(vocab, maxlen):
    """all sequences of 1..maxlen lines × {no, one} trailing newline (generator of str)"""
    import itertools
    for n in range(1, maxlen + 1):
        for tup in itertools.product(vocab, repeat=n):
            s = "\n".join(tup)
            yield s
            yield s + "\n"


# ---------------------------------------------------------------------------------------------
# W-unicode

UNI_CLASSES = {
    "c0": [chr(c) for c in range(0, 32)] + ["\x7f"],
    "linebreakish": ["\x0b", "\x0c", "\x1c", "\x1d", "\x1e", "\x85", "\u2028", "\u2029"],
    "c1": [chr(c) for c in range(0x80, 0xa0)],
    "space": [c for c in map(chr, list(range(0x3000)) + [0x3000, 0xfeff]) if c.isspace()] + ["​", "⁠", "﻿"],
    "punct": list("¡§«¶·»¿‐–—‘’“”†•…‰′‹›⁂€™←→−≠、。〈〉「」！＂（）"),
    "astral": ["\U0001f600", "\U0001d504", "\U00010000", "\U0010ffff", "\U000e0001", "\U0001f1e6", "\U00012470"],
    "combining": ["́", "̈", "⃝", "̸", "️", "‍"],
    "case": list("ßẞǅǆİıςΣσKÅŉǰΐﬁﬃ"),
    "nonchar": ["﷐", "￾", "￿", "\U0001fffe", "�", "﻿"],
    "ascii_punct": list("!\"#$%&'()*+,-./:;<=>?@[\\]^_`{|}~"),
    "letters": list("aZ09éλжא的"),
}


def uni_text(rng, n=None, classes=None):
    classes = classes or list(UNI_CLASSES)
    n = n if n is not None else rng.randint(1, 12)
    return "".join(rng.choice(UNI_CLASSES[rng.choice(classes)]) for _ in range(n))


def uni_doc(rng):
    """document mixing unicode hostile characters into soup"""
    s = soup(rng, 6)
    chars = list(s)
    for _ in range(rng.randint(1, 6)):
        pos = rng.randint(0, len(chars))
        chars.insert(pos, uni_text(rng, rng.randint(1, 3)))
    return "".join(chars)


# ---------------------------------------------------------------------------------------------
# W-corpus

_corpus_cache = None


def read_fixture_file(path):
    text = open(path, encoding="utf8").read()
    tests = []
    section = 0
    last = 0
    lines = text.splitlines(keepends=True)
    for i, l in enumerate(lines):
        if l.rstrip() == ".":
            if section == 0:
                section = 1
            elif section == 1:
                tests.append("".join(lines[last + 1:i]))
                section = 2
            else:
                section = 0
            last = i
    return tests


def corpus():
    """list of (name, text) from the repository's own spec, fixtures and benchmark samples"""
    global _corpus_cache
    if _corpus_cache is not None:
        return _corpus_cache
    repo = os.environ.get("VERIF_REPO", "/repo")
    out = []
    try:
        spec = json.load(open(os.path.join(repo, "tests/test_cmark_spec/commonmark.json"), encoding="utf8"))
        for e in spec:
            out.append((f"spec{e['example']}", e["markdown"]))
    except OSError:
        pass
    for p in sorted(glob.glob(os.path.join(repo, "tests/test_port/fixtures/*.md"))):
        for i, t in enumerate(read_fixture_file(p)):
            out.append((f"{os.path.basename(p)}#{i}", t))
    for p in sorted(glob.glob(os.path.join(repo, "benchmarking/samples/*"))):
        try:
            t = open(p, encoding="utf8").read()
        except OSError:
            continue
        if len(t) > 6000:
            # long samples: take windows on line boundaries
            ls = t.split("\n")
            for k in range(0, min(len(ls), 2000), 40):
                out.append((f"{os.path.basename(p)}@{k}", "\n".join(ls[k:k + 40]) + "\n"))
        else:
            out.append((os.path.basename(p), t))
    # de-duplicate, keep order
    seen = set()
    res = []
    for n, t in out:
        if t not in seen:
            seen.add(t)
            res.append((n, t))
    _corpus_cache = res
    return res


def corpus_mutation(rng):
    """(a) prefix, (b) splice, (c) container wrapping, (d) re-encoding of corpus entries"""
    c = corpus()
    name, t = rng.choice(c)
    if len(t) > 1500:
        a = rng.randint(0, len(t) - 1500)
        t = t[a:a + 1500]
    k = rng.random()
    if k < 0.35:
        return t[: rng.randint(0, len(t))]
    if k < 0.55:
        _, u = rng.choice(c)
        u = u[:800]
        if rng.random() < 0.5:
            tl, ul = t.split("\n"), u.split("\n")
            i, j = rng.randint(0, len(tl)), rng.randint(0, len(ul))
            return "\n".join(tl[:i] + ul[j:])
        i, j = rng.randint(0, len(t)), rng.randint(0, len(u))
        return t[:i] + u[j:]
    if k < 0.75:
        pre = rng.choice(["> ", ">", "- ", "1. ", "  ", "    ", "\t", ">\t", "* > ", "> - "])
        cont = " " * len(pre) if pre.strip() in ("-", "1.", "*") else pre
        ls = t.split("\n")
        return "\n".join([(pre if i == 0 else (cont if rng.random() < 0.9 else "")) + l for i, l in enumerate(ls)])
    if k < 0.9:
        mode = rng.randint(0, 3)
        if mode == 0:
            return t.replace("\n", "\r\n")
        if mode == 1:
            return t.replace("\n", "\r")
        if mode == 2:
            i = rng.randint(0, len(t))
            return t[:i] + "\x00" + t[i:]
        return t.replace("    ", "\t").replace("  ", "\t", rng.randint(0, 3))
    chars = list(t)
    for _ in range(rng.randint(1, 4)):
        if chars:
            i = rng.randrange(len(chars))
            chars[i] = rng.choice(["", "\n", " ", "*", "`", "[", "]", "<", ">", "\\", "\t", "|", "&", chars[i] * 2])
    return "".join(chars)


def any_doc(rng):
    """mixture of all document workloads"""
    r = rng.random()
    if r < 0.35:
        return soup(rng)
    if r < 0.65:
        return gram(rng, final_newline=rng.random() < 0.8)
    if r < 0.9:
        return corpus_mutation(rng)
    return uni_doc(rng)


def strip_surrogates(s):
    return "".join(ch for ch in s if not (0xD800 <= ord(ch) <= 0xDFFF))


# ---- systematic small-alphabet sweeps (added after round 4 of the seeded changes) ---------------------------------------------------
def boundary_codepoints():
    """every code point of the ranges in which the library's character classes have their edges (Latin-1 and its neighbours, general
    punctuation / spaces, CJK punctuation, the ends of the planes)"""
    cps = list(range(0, 0x300)) + list(range(0x1680, 0x1681)) + list(range(0x2000, 0x2070)) + list(range(0x2E00, 0x2E10)) + list(range(0x3000, 0x3040))
    cps += [0x37E, 0x387, 0x55A, 0x589, 0x5BE, 0x10FB, 0x180E, 0x1FFF, 0x20A0, 0x2100, 0x2190, 0x2FFF, 0xD7FF, 0xE000, 0xFE50, 0xFEFF, 0xFF01, 0xFF0A, 0xFF5E, 0xFFFD,
            0xFFFE, 0xFFFF, 0x10000, 0x1F600, 0x10FFFF]
    return [c for c in cps if not 0xD800 <= c <= 0xDFFF]


CP_TEMPLATES = ["*{c}a*", "*a{c}*", "{c}*a*", "**a**{c}", "_a{c}_ b", "a{c}_b_", "~~{c}~~", "~~a~~{c}", '"{c}"', "'{c}' x", "a{c}'s \"q{c}\"", "[{c}]({c})", "[a]({c} \"{c}\")",
                "\\{c}", "<{c}>", "<a{c}b@c.d>", "# {c}", "-{c}x", "1.{c}x", "{c}- x", ">{c}q", "`{c}`", "```{c}\nc\n```", "{c}", "a{c}\n===", "|{c}|\n|-|\n", "&{c};", "http://x.y/{c}",
                "{c}www.ex.com{c}", "[r]:{c}/u\n\n[r]", "  {c}  x", "x  {c}\ny", "(c{c}) ...{c} --{c}"]


def delimiter_words(kinds):
    """words whose ends carry delimiter runs of the given kinds: '' | k1 | k2 on either side of a letter"""
    ends = [""] + list(kinds)
    return [p + ch + s for (p, ch, s) in ((p, "abcxyz"[(i + j) % 6], s) for i, p in enumerate(ends) for j, s in enumerate(ends))]


DELIM_KIND_PAIRS = [("*", "~~"), ("*", "__"), ("_", "**"), ("**", "~~"), ("*", "_"), ("*", "**"), ("_", "~~"), ("__", "**")]


def delimiter_docs(kinds, maxlen):
    """every sequence of 1..maxlen delimiter words, joined by blanks (all crossings / nestings / strays of two delimiter kinds)"""
    import itertools
    words = delimiter_words(kinds)
    for n in range(1, maxlen + 1):
        for seq in itertools.product(words, repeat=n):
            yield " ".join(seq)
