"""W-path: scalable pathological input families (C20; reused at moderate size by C01).

Each family: name -> (builder(n) -> str, target function names (any of), needs) where `needs`
names optional rules the family aims at (so presets lacking them skip it).
n is a repetition count; the runner scales n to reach a requested length.
"""
from __future__ import annotations


def rep(s):
    return lambda n: s * n


def wrap(pre, s, post):
    return lambda n: pre + s * n + post


def incr_backticks(n):
    # `a` ``a`` ```a``` ... total length ~ n^2/2, so invert: k runs where k(k+1)/2*... ~ n
    out = []
    total = 0
    k = 1
    while total < n:
        out.append("e" + "`" * k)
        total += k + 1
        k += 1
    return "".join(out)


def nested_lists(n):
    # depth limited by line width growth: 2 spaces per level -> O(d^2) chars; cap the depth and repeat
    out = []
    depth = 0
    total = 0
    while total < n:
        d = depth % 40
        line = "  " * d + "- a"
        out.append(line)
        total += len(line) + 1
        depth += 1
    return "\n".join(out) + "\n"


def deep_list_empty_lines(n):
    out = []
    total = 0
    d = 0
    while total < n:
        dd = d % 30
        line = " " * (2 * dd) + "* a"
        out.append(line)
        out.append("")
        total += len(line) + 2
        d += 1
    return "\n".join(out)


def table_rows(n):
    return "|a|b|\n|-|-|\n" + "|x|y|\n" * n


def table_cols(n):
    return "|" + "a|" * n + "\n|" + "-|" * n + "\n|" + "x|" * n + "\n"


def table_sparse(n):
    # header with k columns, k body rows with one cell each: k*k cells are auto-completed from ~5k characters of input
    k = max(2, n)
    return "|" + "a|" * k + "\n|" + "-|" * k + "\n" + "|x|\n" * k


def refdefs_consecutive(n):
    return "".join(f"[l{i}]: /u{i}\n" for i in range(n))


def refdefs_separated(n):
    return "".join(f"[l{i}]: /u{i}\n\n" for i in range(n))


def ref_uses(n):
    return "[r]: /u\n\n" + "[r] " * n + "\n"


def setext_runup(n):
    return "a\n" * n + "===\n"


def lazy_quote(n):
    return "> a\n" + "b\n" * n


def lazy_list(n):
    return "- a\n" + "b\n" * n


def quote_lines(n):
    return "> a\n" * n


def flat_list(n):
    return "- a\n" * n


def ordered_list(n):
    return "".join(f"{i % 1000}. a\n" for i in range(1, n + 1))


def unclosed_fence(n):
    return "```\n" + "a\n" * n


def unclosed_html(n):
    return "<!--\n" + "a\n" * n


def hr_lookalike(n):
    return ("- " * 20 + "a\n") * max(1, n // 10)


def paras(n):
    return "a\n\n" * n


def headings(n):
    return "# a\n" * n


def code_lines(n):
    return "    a\n" * n


def blank_lines(n):
    return "a" + "\n" * n + "b\n"


def quote_then_emph(n):
    return ">" * n + "a*" * n


FAMILIES = {
    # --- upstream test/pathological.js ---
    "up_backtick_backslash": (rep("``\\"), ["backtick"], []),
    "up_backtick_incr": (incr_backticks, ["backtick"], []),
    "up_emph_nested_strong_em": (lambda n: "*a **a " * n + "b" + " a** a*" * n, ["tokenize", "emphasis"], []),
    "up_emph_open_no_close": (rep("**_* "), ["tokenize"], []),
    "up_emph_star_a_star": (lambda n: "*" * n + "a" + "*" * n, ["tokenize"], []),
    "up_a_us_sp": (rep("a_ "), ["tokenize"], []),
    "up_us_a_sp": (rep("_a "), ["tokenize"], []),
    "up_a_close_bracket": (rep("a]"), ["text", "link"], []),
    "up_open_bracket_a": (rep("[a"), ["link"], []),
    "up_star_a_us": (rep("*a_ "), ["tokenize"], []),
    "up_cmark389": (lambda n: "*a " * n + "_a* " * n, ["tokenize"], []),
    "up_ab_c": (lambda n: "a**b" + "c* " * n, ["tokenize"], []),
    "up_bracket_sp_a_us": (rep("[ a_"), ["link"], []),
    "up_bracket_paren": (rep("[ (]("), ["link"], []),
    "up_img_bracket": (rep("![[]()"), ["image", "link"], []),
    "up_strong_link_mix": (rep("**x [a*b**c*](d)"), ["link"], []),
    "up_link_angle_unclosed": (rep("[a](<b"), ["link", "parseLinkDestination"], []),
    "up_link_unclosed": (rep("[a](b"), ["link", "parseLinkDestination"], []),
    "up_html_comment_open": (wrap("</", "<!--", ""), ["html_inline", "text"], []),
    "up_deep_list_empty": (deep_list_empty_lines, ["list_block"], []),
    "up_deep_list_empty_in_quote": (lambda n: "\n".join("> " + l for l in deep_list_empty_lines(n).split("\n")), ["list_block", "blockquote"], []),
    "up_quote_emph": (quote_then_emph, ["blockquote"], []),
    "up_nested_brackets": (lambda n: "[" * n + "a" + "]" * n, ["link"], []),
    "up_nested_quotes": (lambda n: "> " * n + "a\n", ["blockquote"], []),
    # --- own ---
    "link_nest": (lambda n: "[" * n + "a" + "](u)" * n, ["link"], []),
    "image_nest": (lambda n: "![" * n + "a" + "](u)" * n, ["image"], []),
    "links_flat": (rep("[a](u) "), ["link"], []),
    "images_flat": (rep("![a](u) "), ["image"], []),
    "strike_open": (rep("~~a "), ["tokenize"], ["strikethrough"]),
    "strike_mix": (rep("~~a~~ ~~"), ["tokenize"], ["strikethrough"]),
    "entities_valid": (rep("&amp;"), ["entity"], []),
    "entities_invalid": (rep("&nosuch;"), ["entity"], []),
    "entities_numeric": (rep("&#x41;&#66;"), ["entity"], []),
    "amp_run": (rep("&"), ["entity"], []),
    "angle_open": (rep("<"), ["autolink", "html_inline"], []),
    "angle_a": (rep("<a "), ["autolink", "html_inline"], []),
    "autolinks": (rep("<http://a.b> "), ["autolink"], []),
    "autolink_unclosed": (rep("<http://a"), ["autolink"], []),
    "escapes": (rep("\\*"), ["escape"], []),
    "backslashes": (rep("\\"), ["escape"], []),
    "backtick_pairs": (rep("`a` "), ["backtick"], []),
    "backtick_open": (rep("` "), ["backtick"], []),
    "newlines_soft": (rep("a\n"), ["newline"], []),
    "newlines_hard": (rep("a  \n"), ["newline"], []),
    "emph_pairs": (rep("*a* "), ["tokenize"], []),
    "emph_in_links": (rep("[*a*](u) "), ["link"], []),
    "underscore_run": (rep("_"), ["tokenize"], []),
    "star_run_sp": (rep("* "), ["hr", "list_block", "tokenize"], []),
    "quote_lines": (quote_lines, ["blockquote"], []),
    "lazy_quote": (lazy_quote, ["blockquote", "paragraph"], []),
    "lazy_list": (lazy_list, ["list_block", "paragraph"], []),
    "flat_list": (flat_list, ["list_block"], []),
    "ordered_list": (ordered_list, ["list_block"], []),
    "nested_lists": (nested_lists, ["list_block"], []),
    "table_rows": (table_rows, ["table"], ["table"]),
    "table_cols": (table_cols, ["table"], ["table"]),
    "pipes": (rep("|"), ["table", "text"], ["table"]),
    "table_sparse": (table_sparse, ["table"], ["table"]),
    "refdefs_consecutive": (refdefs_consecutive, ["reference"], []),
    "refdefs_separated": (refdefs_separated, ["reference"], []),
    "ref_uses": (ref_uses, ["link"], []),
    "ref_label_open": (rep("[a]: "), ["reference", "link"], []),
    "setext_runup": (setext_runup, ["lheading"], []),
    "unclosed_fence": (unclosed_fence, ["fence"], []),
    "unclosed_html": (unclosed_html, ["html_block"], []),
    "hr_lookalike": (hr_lookalike, ["hr", "list_block"], []),
    "paragraphs": (paras, ["paragraph"], []),
    "headings": (headings, ["heading"], []),
    "code_lines": (code_lines, ["code"], []),
    "blank_lines": (blank_lines, ["paragraph", "tokenize"], []),
    "fence_pairs": (rep("```\na\n```\n"), ["fence"], []),
    "link_titles_unclosed": (rep("[a](b \"c"), ["link", "parseLinkTitle"], []),
    "link_paren_dest": (lambda n: "[a](" + "(" * n + ")" * n + ")", ["link", "parseLinkDestination"], []),
    # block-level continuation/termination shapes: every line is re-examined by the rules of an enclosing or preceding block
    "quote_blank_then_text": (rep("> a\n>  \nfoo\n"), ["blockquote"], []),
    "quote_empty_then_text": (rep("> a\n>\nfoo\n"), ["blockquote"], []),
    "quote_heading_then_text": (rep("> # a\nfoo\n"), ["blockquote"], []),
    "quote_fence_then_text": (rep("> ```\nfoo\n"), ["blockquote"], []),
    "quote_code_then_text": (rep(">     c\nfoo\n"), ["blockquote"], []),
    "quote_hr_then_text": (rep("> ---\nfoo\n"), ["blockquote"], []),
    "list_heading_then_text": (rep("- # a\nfoo\n"), ["list_block"], []),
    "para_lone_tags": (lambda n: "a\n" + "<x>\n" * n, ["html_block", "paragraph"], []),
    "lazy_quote_lone_tags": (lambda n: "> a\n" + "</x>\n" * n, ["html_block", "blockquote"], []),
    "para_lone_tags_attr": (lambda n: "a\n" + "<a href=\"u\">\n" * n, ["html_block", "paragraph"], []),
    "table_then_lone_tags": (lambda n: "|a|\n|-|\n" + "<x>\n" * n, ["html_block", "table"], ["table"]),
    "refdef_then_lines": (lambda n: "[r]: /u\n" + "x\n" * n, ["reference", "paragraph"], []),
    "squote_open_dquote_close": (lambda n: "'a " * n + "b\" " * n, ["process_inlines", "smartquotes"], ["typographer"]),
    "dquote_open_only": (rep("\"a "), ["process_inlines", "smartquotes"], ["typographer"]),
    "squote_close_only": (rep("a' "), ["process_inlines", "smartquotes"], ["typographer"]),
    "mixed_quotes_unbalanced": (rep("'a \"b "), ["process_inlines", "smartquotes"], ["typographer"]),
    "emph_deep_link": (lambda n: "*a **b " * n + "[l](u) <http://x.y> `c` ![i](s)" + " b** a*" * n, ["tokenize"], []),
    "strike_deep_link": (lambda n: "~~a *b " * n + "[l](u)" + " b* a~~" * n, ["tokenize"], ["strikethrough"]),
    "link_autolink_emph": (rep("[*x <http://a.b>](u) y* "), ["link"], []),
    "quote_list_alternate": (lambda n: "> - " * n + "a\n", ["blockquote", "list_block"], []),
    "smart_quotes": (rep("\"a\" 'b' "), ["process_inlines", "smartquotes"], ["typographer"]),
    "replacements": (rep("(c) -- ... +- "), ["replace", "replace_rare", "replace_scoped"], ["typographer"]),
    "linkify_text": (rep("http://a.b/c "), ["linkify"], ["linkify"]),
    "link_label_balanced_brackets": (lambda n: "[" + "[" * (n // 2) + "a" + "]" * (n // 2) + "](/url)\n", ["link"], []),
    "link_label_balanced_brackets_ref": (lambda n: "[r]: /u\n\n[t " + "[" * (n // 2) + "a" + "]" * (n // 2) + " t][r]\n", ["link"], []),
    "image_label_balanced_brackets": (lambda n: "![" + "[" * (n // 2) + "a" + "]" * (n // 2) + "](/s)\n", ["image"], []),
    # an open bracket first: everything after it is scanned in validation mode (skipToken) before it is tokenized for real
    "bracket_then_escaped_backticks": (lambda n: "[" + "\\``" * (n // 3), ["skipToken"], []),
    "bracket_then_backtick_pairs": (lambda n: "[" + "`a `` " * (n // 6), ["skipToken"], []),
    "bracket_then_tilde_run": (lambda n: "[" + "~" * n, ["skipToken"], []),
    "bracket_then_star_run": (lambda n: "[" + "*" * n, ["skipToken"], []),
    "bracket_then_underscore_words": (lambda n: "[" + "_a " * (n // 3), ["skipToken"], []),
    "bracket_then_lt_run": (lambda n: "[" + "<" * n, ["skipToken"], []),
    "bracket_then_amp_run": (lambda n: "[" + "&a" * (n // 2), ["skipToken"], []),
    "bracket_then_bang_brackets": (lambda n: "[" + "![" * (n // 2), ["skipToken"], []),
    "bracket_then_backslashes": (lambda n: "[" + "\\" * n, ["skipToken"], []),
    "bracket_then_autolinks": (lambda n: "[" + "<a:b> " * (n // 6), ["skipToken"], []),
    "image_bracket_then_tilde_run": (lambda n: "![" + "~" * n, ["skipToken"], []),
    # many separate blocks that each begin with an unclosed bracket (every one is offered to the reference-definition rule)
    "open_bracket_paragraphs": (rep("[a\n\n"), ["reference"], []),
    "open_bracket_items": (rep("- [a\n"), ["reference"], []),
    "open_bracket_after_heading": (rep("# h\n[*a*\n"), ["reference"], []),
    "open_bracket_quotes": (rep("> [a\n\n"), ["reference"], []),
    "open_bracket_lines": (rep("[a\n"), ["reference"], []),
    "open_bracket_escaped_close": (rep("[a\\]\n\n"), ["reference"], []),
    # a quote directly inside a list item, ended by another block instead of a blank line
    "item_quote": (rep("- > a\n"), ["blockquote"], []),
    "item_quote_hr": (rep("1. > q\n   ***\n"), ["blockquote"], []),
    "item_quote_heading": (rep("- > a\n  # h\n"), ["blockquote"], []),
    "item_quote_fence": (rep("- > a\n  ```\n  c\n  ```\n"), ["blockquote"], []),
    "item_item_quote": (rep("- - > a\n"), ["blockquote"], []),
    "quote_item_quote": (rep("> - > a\n"), ["blockquote"], []),
    "item_quote_next_item_para": (rep("- > a\n- b\n"), ["blockquote"], []),
}


# matched pairs interleaved with stray closers / openers (all 2- and 3-atom cycles over a small alphabet of emphasis shapes)
_EMPH_ATOMS = ["*a* ", "b* ", "*c ", "**d** ", "e** ", "_f_ ", "g_ ", "~~h~~ ", "i~~ "]
for _i, _x in enumerate(_EMPH_ATOMS):
    for _j, _y in enumerate(_EMPH_ATOMS):
        if _i != _j:
            FAMILIES[f"emph_mix_{_i}{_j}"] = (rep(_x + _y), ["tokenize"], ["strikethrough"] if "~~" in _x + _y else [])
AUTO_CM_ONLY = tuple(k for k in FAMILIES if k.startswith("emph_mix_"))


def build(name, length):
    """document of family `name` with about `length` characters"""
    fn = FAMILIES[name][0]
    unit = max(1, len(fn(8)) - len(fn(4))) / 4.0
    n = max(1, int(length / unit))
    s = fn(n)
    # one correction step for families whose size is not linear in n
    if len(s) > 1.5 * length or len(s) < 0.6 * length:
        n = max(1, int(n * length / max(1, len(s))))
        s = fn(n)
    return s
