"""Boundary-value catalogue: documents that sit just below, at and just above every size/depth/count limit the parser has
(documented or implied by its code): nesting limits, marker lengths, label lengths, cell budgets, digit counts, ...
Shared by the stream/HTML/map/tree monitors (C02, C03, C04, C08, C15) - these are workloads, the oracles are the monitors'."""
from __future__ import annotations


def docs(big=True):
    out = []

    def add(name, src):
        out.append((name, src))
    for mn in (20, 100):
        for d in (mn - 2, mn - 1, mn, mn + 1, mn + 5):
            add(f"quotes_{d}", "> " * d + "q\n")
            add(f"lists_{d}", "- " * d + "l\n")
            add(f"brackets_{d}", "[" * d + "t" + "](u)" * d + "\n")
            add(f"images_{d}", "![" * d + "t" + "](u)" * d + "\n")
            add(f"emph_link_{d}", "*a **b " * (d // 2 + 1) + "[l](u) <http://x.y> ![i](s)" + " b** a*" * (d // 2 + 1) + "\n")
            add(f"strike_autolink_{d}", "~~a *b " * (d // 2 + 1) + "<m@n.o> [l](u)" + " b* a~~" * (d // 2 + 1) + "\n")
            add(f"quote_list_{d}", "> - " * (d // 2 + 1) + "x\n")
    for n in (998, 999, 1000, 1001, 1200):
        lab = ("ab " * 400)[:n]
        add(f"label_{n}", f"[{lab}]: /u\n\n[{lab}]\n")
        add(f"linktext_{n}", f"[{lab}](/u)\n")
        add(f"alt_{n}", f"![{lab}](/u)\n")
        add(f"linktext_refs_{n}", "[" + "&#97;" * (n // 5) + "](/u)\n")
    for n in (8, 9, 10, 11):
        add(f"ol_digits_{n}", "1" * n + ". x\n")
        add(f"entity_dec_{n}", "&#" + "1" * n + ";\n")
        add(f"entity_hex_{n}", "&#x" + "f" * n + ";\n")
    for n in (31, 32, 33, 34):
        add(f"dest_parens_{n}", "[a](" + "(" * n + ")" * n + ")\n")
        add(f"autolink_scheme_{n}", "<a" + "b" * (n - 1) + ":x>\n")
        add(f"entity_name_{n}", "&" + "a" * n + ";\n")
    add("entity_longest_name", "&CounterClockwiseContourIntegral; &amp; x\n")
    for n in (61, 62, 63, 64, 65):
        add(f"email_label_{n}", "<a@" + "b" * n + ".co>\n")
    for n in (1, 2, 3, 4, 5, 6, 7, 8):
        add(f"heading_{n}", "#" * n + " h\n")
        add(f"indent_{n}", " " * n + "x\n\n" + " " * n + "- y\n\n" + " " * n + "> z\n\n" + " " * n + "```\n" + " " * n + "c\n")
    for k in (2, 64, 255, 256, 257, 300):
        add(f"table_sparse_{k}", "|" + "a|" * k + "\n|" + "-|" * k + "\n" + "|x|\n" * k)
    add("table_six_budgets", ("|" + "a|" * 120 + "\n|" + "-|" * 120 + "\n" + "|x|\n" * 100 + "\n") * 6 + "|a|b|\n|-|-|\n|c|\n|d|e|\n")
    if big:
        # the first body row alone exceeds the auto-complete budget
        k = 65538
        add("table_first_row_over_budget", "|a" * k + "|\n" + "|-" * k + "|\n|x|\n|y|z|\n\nafter\n")
        add("table_first_row_at_budget", "|a" * 65537 + "|\n" + "|-" * 65537 + "|\n|x|\n|y|z|\n\nafter\n")
    if big:
        # single units (one token's content, one attribute value) beyond 1 MiB, full of characters that must be escaped
        unit = '<&">' + "x" * 60
        add("fence_1MiB", "```\n" + (unit + "\n") * 16500 + "```\n")
        add("code_block_1MiB", ("    " + unit + "\n") * 16000)
        add("codespan_1MiB", "`" + (unit + " ") * 16300 + "`\n")
        add("text_1MiB", (unit + " ") * 16300 + "\n")
        add("title_1MiB", '[t](/u \'' + (unit + " ") * 16300 + "')\n")
    for n in (3, 50, 5000):
        add(f"fence_len_{n}", "`" * n + "\nc\n" + "`" * n + "\n")
        add(f"hr_len_{n}", "*" * n + "\n")
        add(f"backticks_{n}", "`" * n + " x " + "`" * n + "\n")
    return out
