"""Canned good/bad data for the monitors: each monitor must accept the good and reject the bad."""
CHECKS = []
def selftest(fn):
    CHECKS.append(fn)
    return fn
def run_all():
    import importlib, pkgutil, vf.mon
    for m in pkgutil.iter_modules(vf.mon.__path__):
        importlib.import_module("vf.mon." + m.name)
    for fn in CHECKS:
        fn()
    return len(CHECKS)
