"""W-conf: configuration sampler, canonical ids, instance builder, hostile stub linkifier."""
from __future__ import annotations

import hashlib
import json
import re

PRESETS = ["commonmark", "js-default", "default", "zero", "gfm-like"]

OPTIONAL_BLOCK = ["table", "code", "fence", "blockquote", "hr", "list", "reference", "html_block", "heading", "lheading"]
OPTIONAL_INLINE = ["autolink", "backticks", "emphasis", "entity", "escape", "html_inline", "image", "link", "newline",
                   "strikethrough", "linkify"]
OPTIONAL_CORE = ["replacements", "smartquotes", "linkify"]
OPTIONAL = OPTIONAL_BLOCK + OPTIONAL_INLINE + ["replacements", "smartquotes"]

QUOTES = [
    "“”‘’", "«»„“", "<>&\"", "\"\"''", "abcd",
    ["«\xa0", "\xa0»", "‹\xa0", "\xa0›"], ["<<", ">>", "&", "\""], ["", "", "", ""], ["\"", "'", "\"'", "'\""], ["a", "bb", "ccc", "dddd"],
    ['"""', '"""', "'" * 3, "'" * 3], ["<<<", '>""', "<", ">"], ["''", "''", '""', '""'], ["x'", "'x", 'y"', '"y'],
]
LANGPREFIX = ["language-", "", "<\"&>", "l ", "lang\tx-", "é'"]


class _Match:
    def __init__(self, url, text, index, last_index, schema):
        self.url, self.text, self.index, self.last_index, self.schema = url, text, index, last_index, schema
        self.raw = text


class StubLinkify:
    """Hostile double for linkify-it-py: reports ordinary URLs, bare hosts, e-mail addresses *and*
    dangerous-scheme candidates, so that the repository's own normalizeLink/validateLink calls are
    what stands between the input and the output."""

    RE = re.compile(
        r"(?P<s>(?:[A-Za-z][A-Za-z0-9+.-]*:)?//)[^\s<>\"]+"           # scheme://… or //…
        r"|(?P<d>(?:javascript|vbscript|file|data|JaVaScRiPt|DATA):[^\s<>]+)"  # dangerous candidates
        r"|(?P<m>mailto:[^\s<>]+|[A-Za-z0-9._-]+@[A-Za-z0-9-]+\.[A-Za-z]{2,})"
        r"|(?P<h>www\.[A-Za-z0-9-]+\.[A-Za-z]{2,}[^\s<>]*)"
    )

    def pretest(self, text):
        return bool(self.RE.search(text))

    def test(self, text):
        return bool(self.RE.search(text))

    def _mk(self, m):
        t = m.group(0)
        if m.group("h"):
            return _Match("http://" + t, t, m.start(), m.end(), "")
        if m.group("m"):
            if t.lower().startswith("mailto:"):
                return _Match(t, t, m.start(), m.end(), "mailto:")
            return _Match("mailto:" + t, t, m.start(), m.end(), "mailto:")
        sch = t.split(":", 1)[0] + ":" if ":" in t.split("/", 1)[0] else "//"
        return _Match(t, t, m.start(), m.end(), sch)

    def match(self, text):
        res = [self._mk(m) for m in self.RE.finditer(text)]
        return res or None

    def match_at_start(self, text):
        m = self.RE.match(text)
        if not m:
            return None
        return self._mk(m)


def hook_normalize(url):
    """application-style link rewriting: site-relative destinations get a base URL, one host is mirrored"""
    from markdown_it.common.normalize_url import normalizeLink
    u = normalizeLink(url)
    if u.startswith("/") and not u.startswith("//"):
        return "https://base.example" + u
    return u.replace("x.y", "mirror.example")


def hook_validate(url):
    """application-style policy: stricter for some destinations, laxer for others than the stock validator"""
    from markdown_it.common.normalize_url import validateLink
    if "forbidden" in url or url.startswith("%20") or url == "#":
        return False
    return validateLink(url) or url.lower().startswith(("javascript:", "data:"))


def conf_id(conf) -> str:
    return hashlib.sha1(json.dumps(conf, sort_keys=True).encode()).hexdigest()[:10]


def handwritten_preset(base):
    """a preset written by hand the way applications do: a dict with options and explicit rule lists per component - but, like
    the documented minimal examples, without the optional 'rules2' list of the inline component"""
    import copy
    from markdown_it import parser_block, parser_core, parser_inline, presets
    mod = {"commonmark": presets.commonmark, "js-default": presets.js_default, "default": presets.default, "zero": presets.zero, "gfm-like": presets.gfm_like}[base]
    cfg = copy.deepcopy(mod.make())
    comps = cfg.setdefault("components", {})
    allr = {"core": [r[0] for r in parser_core._rules], "block": [r[0] for r in parser_block._rules], "inline": [r[0] for r in parser_inline._rules]}
    for ch in ("core", "block", "inline"):
        comp = comps.setdefault(ch, {})
        if not comp.get("rules"):
            comp["rules"] = [r for r in allr[ch] if r != "linkify" or cfg["options"].get("linkify")]
    had = comps["inline"].pop("rules2", None)
    if had is not None and base == "zero":
        # (zero lists only balance_pairs/fragments_join: without the list all post-processing rules stay on, which is harmless as
        # long as their inline counterparts are off)
        pass
    return cfg


def build(conf):
    """conf: {"preset", "options": {...}, "enable": [...], "disable": [...], "stub_linkify": bool}"""
    from markdown_it import MarkdownIt

    preset = conf.get("preset", "commonmark")
    if conf.get("handwritten"):
        preset = handwritten_preset(preset)
    md = MarkdownIt(preset, conf.get("options") or None)
    if conf.get("enable"):
        md.enable(list(conf["enable"]))
    if conf.get("disable"):
        md.disable(list(conf["disable"]))
    if conf.get("stub_linkify"):
        md.linkify = StubLinkify()
    if conf.get("link_hooks"):
        md.normalizeLink = hook_normalize
        md.validateLink = hook_validate
    return md


def base_confs():
    """small panel of representative configurations"""
    return {
        "cm": {"preset": "commonmark"},
        "js": {"preset": "js-default"},
        "zero": {"preset": "zero"},
        "cmx": {"preset": "commonmark", "enable": ["table", "strikethrough"]},
        "jst": {"preset": "js-default", "options": {"typographer": True}},
        "nocode": {"preset": "commonmark", "disable": ["code"]},
        "gfm": {"preset": "gfm-like", "stub_linkify": True},
    }


def sample(rng, html=None, allow_linkify=True, presets=None):
    """random supported configuration (C01 quantifier)"""
    preset = rng.choice(presets or ["commonmark", "js-default", "zero", "gfm-like", "default"])
    conf = {"preset": preset}
    opts = {}
    if rng.random() < 0.7:
        for k in ("typographer", "breaks", "xhtmlOut"):
            if rng.random() < 0.5:
                opts[k] = rng.random() < 0.5
        if rng.random() < 0.3:
            opts["langPrefix"] = rng.choice(LANGPREFIX)
        if rng.random() < 0.4:
            opts["quotes"] = rng.choice(QUOTES)
        if rng.random() < 0.4:
            opts["maxNesting"] = rng.choice([1, 2, 3, 5, 10, 20, 50, 100])
        if rng.random() < 0.3:
            opts["inline_definitions"] = rng.random() < 0.7
        if rng.random() < 0.3:
            opts["store_labels"] = rng.random() < 0.7
    if html is None:
        if rng.random() < 0.4:
            opts["html"] = rng.random() < 0.5
    else:
        opts["html"] = html
    stub = False
    if preset == "gfm-like":
        if allow_linkify:
            stub = True
        else:
            opts["linkify"] = False
    elif allow_linkify and rng.random() < 0.25:
        opts["linkify"] = True
        stub = True
    en, dis = [], []
    r = rng.random()
    if r < 0.6:
        k = rng.choice([1, 1, 2, 3, 5, 8])
        for name in rng.sample(OPTIONAL, k):
            if name == "linkify" and not stub:
                continue
            (en if rng.random() < 0.5 else dis).append(name)
    elif r < 0.7:
        # every optional rule decided independently
        for name in OPTIONAL:
            if name == "linkify" and not stub:
                continue
            (en if rng.random() < 0.5 else dis).append(name)
    if opts:
        conf["options"] = opts
    if en:
        conf["enable"] = sorted(en)
    if dis:
        conf["disable"] = sorted(dis)
    if stub:
        conf["stub_linkify"] = True
        if "linkify" not in dis:
            conf.setdefault("enable", [])
            if "linkify" not in conf["enable"]:
                conf["enable"] = sorted(conf["enable"] + ["linkify"])
    return conf
