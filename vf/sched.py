"""Controlled pre-emption on sys.monitoring (CPython 3.12+).

A *schedule* is (k1[, k2]): thread A runs call 1 and is parked inside the monitoring callback at its k1-th event; thread B
then runs call 2 - to completion, or (two pre-emptions) until its own k2-th event, where thread C runs call 3 to completion -
then the parked threads resume in reverse order.  Events are LINE events of every library code object plus INSTRUCTION events
of the code objects that write shared state (discovered at run time by a write log), so that a pre-emption can fall between
any two bytecodes there.  This is a real pre-emption of a real thread at a bytecode boundary, but deterministic and replayable.
"""
from __future__ import annotations

import os
import sys
import threading

mon = sys.monitoring
TOOL = mon.DEBUGGER_ID
E = mon.events


class Budget(BaseException):
    pass


class Scheduler:
    def __init__(self, libdir, fine_codes=()):
        self.libdir = libdir
        self.fine_codes = set(fine_codes)
        self.installed = False
        self._reset()

    def _reset(self):
        self.plan = {}        # thread role -> event index at which to park
        self.counts = {}      # role -> events so far
        self.budgets = {}
        self.roles = {}       # thread ident -> role
        self.on_park = {}     # role -> callable run while parked
        self.park_at = {}     # role -> "file:line" where parked
        self.fine_hits = {}   # role -> events inside fine (shared-write) code
        self.parked_in_fine = {}

    def install(self):
        if self.installed:
            return
        mon.use_tool_id(TOOL, "vf-sched")
        mon.register_callback(TOOL, E.LINE, self._on_line)
        mon.register_callback(TOOL, E.INSTRUCTION, self._on_instr)
        mon.set_events(TOOL, E.LINE)
        for code in self.fine_codes:
            mon.set_local_events(TOOL, code, E.INSTRUCTION)
        self.installed = True

    def uninstall(self):
        if not self.installed:
            return
        for code in self.fine_codes:
            mon.set_local_events(TOOL, code, 0)
        mon.set_events(TOOL, 0)
        mon.register_callback(TOOL, E.LINE, None)
        mon.register_callback(TOOL, E.INSTRUCTION, None)
        mon.free_tool_id(TOOL)
        self.installed = False

    def _event(self, code, where, fine):
        role = self.roles.get(threading.get_ident())
        if role is None:
            return
        n = self.counts[role] = self.counts.get(role, 0) + 1
        if fine:
            self.fine_hits[role] = self.fine_hits.get(role, 0) + 1
        if n == self.plan.get(role):
            self.park_at[role] = f"{os.path.basename(code.co_filename)}:{code.co_name}:{where}"
            self.parked_in_fine[role] = fine
            fn = self.on_park.get(role)
            if fn:
                fn()   # this thread is parked here until fn returns
        if n > self.budgets.get(role, 1 << 60):
            self.budgets[role] = 1 << 60
            raise Budget(f"{role} exceeded its step budget at {os.path.basename(code.co_filename)}:{code.co_name}:{where}")

    def _on_line(self, code, line):
        if not code.co_filename.startswith(self.libdir):
            return mon.DISABLE
        if code in self.fine_codes:
            return None  # counted at instruction granularity instead
        self._event(code, line, False)

    def _on_instr(self, code, offset):
        self._event(code, f"+{offset}", True)

    # -----------------------------------------------------------------------------------------------
    def run(self, calls, plan, budgets):
        """calls: list of (role, thunk) in pre-emption order [A, B(, C)]; plan: {role: k}.
        Returns {role: ("ok", value) | ("exc", repr) | ("budget", msg)} plus bookkeeping in self.*"""
        self._reset()
        self.plan = dict(plan)
        self.budgets = dict(budgets)
        results = {}

        def runner(idx):
            role, thunk = calls[idx]
            self.roles[threading.get_ident()] = role
            if idx + 1 < len(calls):
                def park():
                    t = threading.Thread(target=runner, args=(idx + 1,))
                    t.start()
                    t.join()
                self.on_park[role] = park
            try:
                results[role] = ("ok", thunk())
            except Budget as e:
                results[role] = ("budget", str(e))
            except BaseException as e:  # noqa: BLE001
                results[role] = ("exc", f"{type(e).__name__}: {e}")
            finally:
                self.roles.pop(threading.get_ident(), None)
        t = threading.Thread(target=runner, args=(0,))
        t.start()
        t.join()
        return results


class PingPong(Scheduler):
    """Non-nested interleaving of two calls: A runs to its kA-th event, B starts and runs to its kB-th event, A resumes and runs to
    completion, then B resumes and completes (A1 B1 A2 B2).  Needed for test-and-set windows: the first thread must resume while
    the second is still in the middle of its call."""

    def run_pp(self, callA, callB, kA, kB, budgets, wall=60.0):
        self._reset()
        self.budgets = dict(budgets)
        results = {}
        goA, goB = threading.Event(), threading.Event()
        state = {"b_started": False, "a_done": False, "b_done": False}

        def parkA():
            state["b_started"] = True
            tb.start()
            goA.wait(wall)          # until B parks or finishes

        def parkB():
            goA.set()               # let A run on ...
            goB.wait(wall)          # ... until A has finished

        self.plan = {"A": kA, "B": kB}
        self.on_park = {"A": parkA, "B": parkB}

        def run(role, thunk, done_key, wake):
            self.roles[threading.get_ident()] = role
            try:
                results[role] = ("ok", thunk())
            except Budget as e:
                results[role] = ("budget", str(e))
            except BaseException as e:  # noqa: BLE001
                results[role] = ("exc", f"{type(e).__name__}: {e}")
            finally:
                self.roles.pop(threading.get_ident(), None)
                state[done_key] = True
                wake.set()
        ta = threading.Thread(target=run, args=("A", callA, "a_done", goB))
        tb = threading.Thread(target=run, args=("B", callB, "b_done", goA))
        ta.start()
        ta.join(wall * 2)
        if state["b_started"]:
            goB.set()
            tb.join(wall * 2)
        return results


def discover_shared_writers(thunk, classes):
    """run thunk with class-level __setattr__ write logging; returns the code objects that wrote an attribute of an
    instance of one of `classes` (the shared objects) during the run"""
    writers = set()
    saved = {}

    def make(cls):
        orig = cls.__dict__.get("__setattr__")

        def logging_setattr(self, name, value, _cls=cls):
            f = sys._getframe(1)
            writers.add(f.f_code)
            object.__setattr__(self, name, value)
        return orig, logging_setattr
    for cls in classes:
        orig, hook = make(cls)
        saved[cls] = orig
        cls.__setattr__ = hook
    try:
        thunk()
    finally:
        for cls, orig in saved.items():
            if orig is None:
                del cls.__setattr__
            else:
                cls.__setattr__ = orig
    return writers
