"""Strict total lexer for the HTML language that RendererHTML itself can produce (html option off).

    doc   := (open | close | text)*
    open  := '<' tag (' ' name '="' value '"')* (' /')? '>'
    close := '</' tag '>'
    value := chars without < > " and with & only as &amp; &lt; &gt; &quot;
    text  := same alphabet as value

Anything else - an unknown element or attribute, an empty tag name, an unterminated tag, a foreign
entity, a raw metacharacter, bad nesting - is returned as an error string.
"""
from __future__ import annotations

import re

TAGS = {"p", "h1", "h2", "h3", "h4", "h5", "h6", "blockquote", "ul", "ol", "li", "pre", "code", "em", "strong", "s", "a", "img",
        "br", "hr", "table", "thead", "tbody", "tr", "th", "td"}
VOID = {"img", "br", "hr"}
ATTRS = {"a": {"href", "title"}, "img": {"src", "alt", "title"}, "ol": {"start"}, "code": {"class"}, "th": {"style"}, "td": {"style"}}
TOK = re.compile(r'<(/?)([A-Za-z][A-Za-z0-9]*)((?: [A-Za-z][A-Za-z0-9-]*="[^"<>]*")*)( /)?>|((?:[^<>"&]|&(?:amp|lt|gt|quot);)+)')
ATTR = re.compile(r' ([A-Za-z][A-Za-z0-9-]*)="([^"<>]*)"')
BAD_AMP = re.compile(r"&(?!(?:amp|lt|gt|quot);)")
STYLE_OK = re.compile(r"^text-align:(left|right|center)\Z")


def scan(html, stats=None):
    pos = 0
    stack = []
    n = len(html)
    while pos < n:
        m = TOK.match(html, pos)
        if not m:
            return "lex", f"cannot lex at {pos}: {html[max(0, pos - 20):pos + 40]!r}"
        pos = m.end()
        if m.group(2):
            close, name, attrs, slash = m.group(1), m.group(2), m.group(3), m.group(4)
            if name not in TAGS:
                return "foreign-tag", f"tag <{name}>"
            seen = set()
            for an, av in ATTR.findall(attrs):
                if an not in ATTRS.get(name, ()):
                    return "foreign-attr", f"attribute {name}.{an}"
                if an in seen:
                    return "duplicate-attr", f"attribute {name}.{an} twice"
                seen.add(an)
                if BAD_AMP.search(av):
                    return "raw-amp-in-attr", f"{name}.{an}={av!r}"
                if an == "style" and not STYLE_OK.match(av):
                    return "style-value", f"{name}.style={av!r}"
                if an == "start" and not av.isdigit():
                    return "start-value", f"ol.start={av!r}"
                if stats is not None:
                    stats["attr." + name + "." + an] += 1
                    if "&" in av:
                        stats["escaped_in_attr." + name + "." + an] += 1
            if stats is not None:
                stats["tag." + name] += 1
            if close:
                if attrs or slash:
                    return "close-with-attrs", f"</{name}{attrs}>"
                if not stack or stack[-1] != name:
                    return "nesting", f"</{name}> but open: {stack[-3:]}"
                stack.pop()
            elif name in VOID:
                pass
            else:
                if slash:
                    return "self-closed-nonvoid", f"<{name} />"
                stack.append(name)
        elif stats is not None and "&" in m.group(5):
            stats["escaped_in_text"] += 1
    if stack:
        return "unclosed", f"unclosed at end: {stack[-4:]}"
    return None
