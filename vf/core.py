"""Runner: shards a property's workload over subprocesses, merges what the monitors observed,
classifies violations against KNOWN_FINDINGS.txt, writes evidence and replay files.

Exit codes: 0 held on what was observed, 1 unlisted violation, 2 inconclusive.
"""
from __future__ import annotations

import argparse
import collections
import hashlib
import importlib
import json
import os
import shutil
import subprocess
import sys
import tempfile
import time

ROOT = os.path.dirname(os.path.dirname(os.path.abspath(__file__)))
PY = "/venv/bin/python"
PROPS = ["C%02d" % i for i in range(1, 21)]


def repo_path() -> str:
    return os.path.abspath(os.environ.get("VERIF_REPO", "/repo"))


def worker_env() -> dict:
    env = dict(os.environ)
    env["PYTHONPATH"] = repo_path() + os.pathsep + ROOT
    env["PYTHONHASHSEED"] = "0"
    env["PYTHONDONTWRITEBYTECODE"] = "1"
    env["VERIF_REPO"] = repo_path()
    # the guard is reserved; no hook exists, but checks "build with hooks on"
    env["MARKDOWN_IT_PY_VERIF"] = "1"
    return env


def load_known() -> dict:
    """{(property, key): description} for `known:` lines; `fixed:` lines suppress nothing."""
    known = {}
    path = os.path.join(ROOT, "KNOWN_FINDINGS.txt")
    if not os.path.exists(path):
        return known
    for line in open(path, encoding="utf8"):
        line = line.strip()
        if not line.startswith("known:"):
            continue
        parts = line[len("known:"):].split()
        prop = key = None
        rest = []
        for p in parts:
            if p.startswith("property=") and prop is None:
                prop = p.split("=", 1)[1]
            elif p.startswith("key=") and key is None:
                key = p.split("=", 1)[1]
            else:
                rest.append(p)
        if prop and key:
            known[(prop, key)] = " ".join(rest)
    return known


def monitor_module(prop: str):
    return importlib.import_module("vf.mon." + prop.lower())


def run_workers(prop, tier, seed, nshards, outdir, timeout, jobs):
    """Returns list of (shard, status, path) where status in ok/timeout/crash."""
    env = worker_env()
    pending = list(range(nshards))
    running = {}
    results = []
    retried = set()
    while pending or running:
        while pending and len(running) < jobs:
            sh = pending.pop(0)
            out = os.path.join(outdir, f"shard{sh}.json")
            log = open(os.path.join(outdir, f"shard{sh}.log"), "wb")
            p = subprocess.Popen(
                [PY, "-m", "vf.worker", prop, tier, str(seed), str(sh), str(nshards), out],
                cwd=ROOT, env=env, stdout=log, stderr=subprocess.STDOUT,
            )
            running[sh] = (p, time.monotonic(), out, log)
        time.sleep(0.05)
        for sh in list(running):
            p, t0, out, log = running[sh]
            rc = p.poll()
            if rc is None:
                if time.monotonic() - t0 > timeout:
                    p.kill()
                    p.wait()
                    log.close()
                    results.append((sh, "timeout", out))
                    del running[sh]
                continue
            log.close()
            del running[sh]
            if rc == 0 and os.path.exists(out):
                results.append((sh, "ok", out))
                if os.environ.get("VERIF_FAILFAST"):
                    try:
                        ff = json.load(open(out, encoding="utf8")).get("info", {}).get("failfast")
                    except (OSError, ValueError):
                        ff = False
                    if ff:
                        # diagnostic mode: a shard stopped at its first unlisted violation - the verdict is decided, stop the rest
                        for sh2, (p2, _t, out2, log2) in list(running.items()):
                            p2.kill()
                            p2.wait()
                            log2.close()
                            results.append((sh2, "stopped(failfast)", out2))
                        for sh2 in pending:
                            results.append((sh2, "stopped(failfast)", os.path.join(outdir, f"shard{sh2}.json")))
                        return sorted(results)
            elif rc not in (3, 4, 5) and sh not in retried:
                # the worker died without a verdict of its own (signal, interpreter fault): run the shard once more
                retried.add(sh)
                os.replace(os.path.join(outdir, f"shard{sh}.log"), os.path.join(outdir, f"shard{sh}.log.first"))
                print(f"NOTE shard {sh} exited with status {rc} without a result; retrying once")
                pending.append(sh)
            else:
                results.append((sh, f"crash(rc={rc})", out))
    return sorted(results)


def write_replay(prop, v, seed, tier):
    d = os.path.join(ROOT, "replays")
    os.makedirs(d, exist_ok=True)
    body = {"property": prop, "key": v["key"], "msg": v["msg"], "case": v["case"], "seed": seed, "tier": tier}
    h = hashlib.sha1(json.dumps(body, sort_keys=True, default=repr).encode()).hexdigest()[:12]
    path = os.path.join(d, f"{prop}-{h}.json")
    with open(path, "w", encoding="utf8") as f:
        json.dump(body, f, indent=1, ensure_ascii=True, default=repr)
    return path


def main(argv=None):
    ap = argparse.ArgumentParser()
    ap.add_argument("prop")
    ap.add_argument("--tier", default=os.environ.get("VERIF_TIER", "quick"), choices=["quick", "thorough"])
    ap.add_argument("--replay")
    ap.add_argument("--jobs", type=int, default=int(os.environ.get("VERIF_JOBS", os.cpu_count() or 4)))
    ap.add_argument("--shards", type=int, default=None)
    ap.add_argument("--no-evidence", action="store_true")
    a = ap.parse_args(argv)
    prop = a.prop.upper()
    if prop not in PROPS:
        print("unknown property", prop)
        return 2
    try:
        seed = int(os.environ.get("VERIF_SEED", "0"))
    except ValueError:
        seed = int(hashlib.sha1(os.environ["VERIF_SEED"].encode()).hexdigest()[:8], 16)

    if a.replay:
        return replay(prop, a.replay)

    mod = monitor_module(prop)
    t0 = time.time()
    nshards = a.shards or getattr(mod, "NSHARDS", {}).get(a.tier, 16)
    timeout = getattr(mod, "TIMEOUT", {}).get(a.tier, 600 if a.tier == "quick" else 7200)
    outdir = tempfile.mkdtemp(prefix=f"vf-{prop}-")
    try:
        results = run_workers(prop, a.tier, seed, nshards, outdir, timeout, a.jobs)
        merged = merge(prop, results, outdir)
    finally:
        pass
    wall = time.time() - t0
    rc = conclude(prop, mod, a.tier, seed, merged, wall, write=not a.no_evidence)
    shutil.rmtree(outdir, ignore_errors=True)
    return rc


def merge(prop, results, outdir):
    counters = collections.Counter()
    maxima = {}
    samples = []
    violations = []
    nt = set()
    problems = []
    infos = {}
    for sh, status, path in results:
        if status != "ok":
            tail = ""
            try:
                tail = open(os.path.join(outdir, f"shard{sh}.log"), errors="replace").read()[-1500:]
            except OSError:
                pass
            problems.append(f"shard {sh}: {status}: {tail}")
            continue
        r = json.load(open(path, encoding="utf8"))
        counters.update(r["counters"])
        for k, v in r["maxima"].items():
            maxima[k] = max(maxima.get(k, v), v)
        samples.extend(r["samples"][:3])
        violations.extend(r["violations"])
        for k, v in r.get("info", {}).items():
            if isinstance(v, list) and isinstance(infos.get(k), list):
                infos[k] = (infos[k] + [x for x in v if x not in infos[k]])[:200]
            else:
                infos.setdefault(k, v)
        ntp = path + ".nt"
        if os.path.exists(ntp):
            data = open(ntp, "rb").read()
            for i in range(0, len(data), 8):
                nt.add(data[i:i + 8])
    return {"counters": counters, "maxima": maxima, "samples": samples, "violations": violations,
            "nt": len(nt), "problems": problems, "info": infos}


def conclude(prop, mod, tier, seed, m, wall, write=True):
    known = load_known()
    counters = m["counters"]
    by_key = collections.OrderedDict()
    for v in m["violations"]:
        by_key.setdefault(v["key"], []).append(v)
    unlisted = []
    lines = []
    known_hit = []
    for key, vs in by_key.items():
        if (prop, key) in known:
            known_hit.append(key)
            lines.append(f"KNOWN-FINDING: property={prop} key={key} {known[(prop, key)]} [{len(vs)} observation(s), e.g. {vs[0]['msg'][:160]}]")
        else:
            unlisted.append((key, vs))
    rc = 0
    for key, vs in unlisted:
        # smallest witness first
        vs.sort(key=lambda v: len(json.dumps(v["case"], default=repr)))
        path = write_replay(prop, vs[0], seed, tier)
        lines.append(f"VIOLATION property={prop} replay={path}")
        lines.append(f"  key={key} observations={len(vs)} msg={vs[0]['msg'][:400]}")
        rc = 1
    inconclusive = []
    if m["problems"]:
        inconclusive.extend(m["problems"])
    floors = mod.floors(tier) if hasattr(mod, "floors") else {}
    for k, lo in floors.items():
        got = counters.get(k, 0) if k in counters or k not in m["maxima"] else m["maxima"][k]
        if got < lo:
            inconclusive.append(f"reach floor not met: {k}={got} < {lo}")
    evaluations = int(counters.get("evaluations", 0))
    if rc == 0 and (inconclusive or evaluations == 0 or m["nt"] < 2):
        if not inconclusive:
            inconclusive.append(f"nothing observed: evaluations={evaluations} distinct_nontrivial={m['nt']}")
        rc = 2
    verdict = {0: "held", 1: "violated", 2: "inconclusive"}[rc]
    if write:
        ev = {
            "property_id": prop,
            "tier": tier,
            "seed": seed,
            "level": getattr(mod, "LEVEL", "exploration"),
            "coverage": {
                "evaluations": evaluations,
                "distinct_nontrivial": int(m["nt"]),
                "rule": getattr(mod, "RULE", ""),
                "samples": m["samples"][:12] or ["(no samples)"],
                "exhaustive": bool(m["info"].get("exhaustive", False)),
                "observed": {k: int(v) for k, v in sorted(counters.items()) if k != "evaluations"},
                "maxima": m["maxima"],
                "reach_floors": floors,
                "verdict": verdict,
                "inconclusive_reasons": inconclusive[:10],
                "known_findings_observed": known_hit,
                "unlisted_violation_keys": [k for k, _ in unlisted],
                "info": m["info"],
            },
            "assumptions": list(getattr(mod, "ASSUMPTIONS", [])),
            "wall_s": round(wall, 2),
            "violations": len(unlisted),
        }
        os.makedirs(os.path.join(ROOT, "evidence"), exist_ok=True)
        with open(os.path.join(ROOT, "evidence", f"{prop}.json"), "w", encoding="utf8") as f:
            json.dump(ev, f, indent=1, ensure_ascii=True, default=repr)
            f.write("\n")
    for l in lines:
        print(l)
    if rc == 2:
        for r in inconclusive[:10]:
            print(f"INCONCLUSIVE property={prop} {r[:600]}")
    elif inconclusive:
        for r in inconclusive[:10]:
            print(f"NOTE (would be inconclusive) {r[:1500]}")
    top = ", ".join(f"{k}={v}" for k, v in sorted(counters.items())[:60])
    print(f"{prop} {tier} seed={seed}: {verdict}; evaluations={evaluations} distinct_nontrivial={m['nt']} wall={wall:.1f}s")
    print(f"  observed: {top}")
    if m["maxima"]:
        print(f"  maxima: {m['maxima']}")
    return rc


def replay(prop, path):
    """Re-execute exactly one recorded case against the current tree (in a fresh worker)."""
    env = worker_env()
    out = tempfile.mktemp(prefix="vf-replay-", suffix=".json")
    p = subprocess.run([PY, "-m", "vf.worker", prop, "replay", "0", "0", "1", out, os.path.abspath(path)],
                       cwd=ROOT, env=env, timeout=3600)
    if p.returncode != 0 or not os.path.exists(out):
        print(f"INCONCLUSIVE property={prop} replay worker failed rc={p.returncode}")
        return 2
    r = json.load(open(out, encoding="utf8"))
    os.unlink(out)
    known = load_known()
    rc = 0
    for v in r["violations"]:
        if (prop, v["key"]) in known:
            print(f"KNOWN-FINDING: property={prop} key={v['key']} {known[(prop, v['key'])]}")
            continue
        print(f"VIOLATION property={prop} replay={path}")
        print(f"  key={v['key']} msg={v['msg'][:600]}")
        rc = 1
    if rc == 0:
        print(f"{prop} replay {path}: no violation on the current tree")
    return rc


if __name__ == "__main__":
    sys.exit(main())
