"""One shard of one property's workload, in a fresh interpreter.

usage: python -m vf.worker <PROP> <tier|replay> <seed> <shard> <nshards> <out.json> [replayfile]
"""
from __future__ import annotations

import collections
import faulthandler
import hashlib
import importlib
import json
import os
import random
import sys
import time
import traceback


class Ctx:
    def __init__(self, prop, tier, seed, shard, nshards):
        self.prop, self.tier, self.seed, self.shard, self.nshards = prop, tier, seed, shard, nshards
        self.rng = random.Random(f"{seed}:{prop}:{shard}")
        self.counters = collections.Counter()
        self.maxima = {}
        self.samples = []
        self.violations = []
        self.vcount = collections.Counter()
        self.nt = set()
        self.info = {}
        self.t0 = time.monotonic()
        self.replaying = False
        self.current = None

    @property
    def quick(self):
        return self.tier != "thorough"

    def scale(self, quick_n, thorough_n):
        """per-shard share of a tier-wide case budget"""
        n = quick_n if self.quick else thorough_n
        return max(1, n // self.nshards)

    def mine(self, i):
        """deterministic partition of an enumerated workload over shards"""
        return i % self.nshards == self.shard

    def count(self, k, n=1):
        self.counters[k] += n

    def cmax(self, k, v):
        if v > self.maxima.get(k, v - 1):
            self.maxima[k] = v

    def nontrivial(self, *parts):
        h = hashlib.blake2b(repr(parts).encode("utf8", "backslashreplace"), digest_size=8).digest()
        self.nt.add(h)

    def sample(self, obj, every=1, cap=6):
        if len(self.samples) < cap and self.counters["evaluations"] % every == 0:
            self.samples.append(obj)

    def violation(self, key, msg, case):
        self.vcount[key] += 1
        if self.vcount[key] <= 5:
            self.violations.append({"key": key, "msg": str(msg)[:2000], "case": case})
        if _FAILFAST and not self.replaying and (self.prop, key) not in _known():
            # diagnostic mode of the seed/mutant tools: the first unlisted violation ends the shard (the verdict is already decided)
            raise FailFast(key)

    def elapsed(self):
        return time.monotonic() - self.t0


class FailFast(BaseException):
    pass


_FAILFAST = bool(os.environ.get("VERIF_FAILFAST"))
_known_cache = []


def _known():
    if not _known_cache:
        from vf.core import load_known
        _known_cache.append(load_known())
    return _known_cache[0]


def fork_ctx(ctx):
    """throw-away context for re-running an oracle (minimisation, replay probing)"""
    c = Ctx(ctx.prop, ctx.tier, ctx.seed, ctx.shard, ctx.nshards)
    c.replaying = True
    return c


def main():
    prop, tier, seed, shard, nshards, out = sys.argv[1:7]
    seed, shard, nshards = int(seed), int(shard), int(nshards)
    faulthandler.enable()
    try:
        import resource
        lim = int(os.environ.get("VERIF_MEM_GB", "6")) << 30
        resource.setrlimit(resource.RLIMIT_AS, (lim, lim))
    except Exception:
        pass
    repo = os.path.abspath(os.environ.get("VERIF_REPO", "/repo"))
    import markdown_it

    here = os.path.abspath(markdown_it.__file__)
    if not here.startswith(repo + os.sep):
        print(f"refusing to run: markdown_it imported from {here}, expected under {repo}")
        sys.exit(3)
    mod = importlib.import_module("vf.mon." + prop.lower())
    ctx = Ctx(prop, "quick" if tier == "replay" else tier, seed, shard, nshards)
    ctx.info["markdown_it"] = here
    wd = getattr(mod, "WATCHDOG", {}).get(ctx.tier, 0) or (560 if ctx.tier == "quick" else 7000)
    if wd:
        faulthandler.dump_traceback_later(wd, exit=True)
    # stall detector (diagnostic only): the same case still running after two consecutive ticks
    import signal
    state = {"ev": -1, "cur": None}

    def on_tick(signum, frame):
        ev = ctx.counters.get("evaluations", 0)
        if ev == state["ev"] and ctx.current is state["cur"] and ctx.current is not None:
            sys.stderr.write("STALL on case: " + json.dumps(ctx.current, default=repr)[:4000] + "\n")
            traceback.print_stack(frame)
            sys.stderr.flush()
            os._exit(5)
        state["ev"], state["cur"] = ev, ctx.current

    if hasattr(signal, "setitimer") and not os.environ.get("VERIF_NO_STALL"):
        # ticks are measured in CPU time of this process, not wall time: a loaded machine must not turn a slow case into a "stall"
        # (a worker that blocks without using CPU is ended by the wall-clock watchdog above instead)
        signal.signal(signal.SIGPROF, on_tick)
        tick = getattr(mod, "STALL_S", 30 if ctx.tier == "quick" else 120)
        signal.setitimer(signal.ITIMER_PROF, tick, tick)
    try:
        if tier == "replay":
            body = json.load(open(sys.argv[7], encoding="utf8"))
            ctx.replaying = True
            mod.replay(ctx, body["case"])
        else:
            mod.run(ctx)
    except FailFast:
        ctx.info["failfast"] = True
    except BaseException:
        traceback.print_exc()
        sys.exit(4)
    res = {
        "counters": dict(ctx.counters),
        "maxima": ctx.maxima,
        "samples": ctx.samples,
        "violations": ctx.violations,
        "info": ctx.info,
        "vcount": dict(ctx.vcount),
    }
    with open(out + ".nt", "wb") as f:
        f.write(b"".join(sorted(ctx.nt)))
    tmp = out + ".tmp"
    with open(tmp, "w", encoding="utf8") as f:
        json.dump(res, f, ensure_ascii=True, default=repr)
    os.replace(tmp, out)


if __name__ == "__main__":
    main()
