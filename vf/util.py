"""Small helpers shared by monitors."""
from __future__ import annotations

import re
import time

NL_RE = re.compile(r"\r\n?|\n")


def norm_src(src: str) -> str:
    """the documented normalisation: CRLF/CR -> LF, NUL -> U+FFFD"""
    return NL_RE.sub("\n", src).replace("\x00", "�")


def src_lines(src: str):
    s = norm_src(src)
    lines = s.split("\n")
    if s.endswith("\n") or s == "":
        lines = lines[:-1]
    return lines


def md_blank(line: str) -> bool:
    return line.strip(" \t") == ""


def walk(tokens):
    """all tokens of a stream, depth first, children included"""
    for t in tokens:
        yield t
        if t.children:
            yield from walk(t.children)


def tdict(t, children=True):
    """comparable dict of a token (recursively)"""
    d = {
        "type": t.type, "tag": t.tag, "nesting": t.nesting, "attrs": dict(t.attrs) if t.attrs else {},
        "map": list(t.map) if t.map is not None else None, "level": t.level, "content": t.content,
        "markup": t.markup, "info": t.info, "meta": t.meta, "block": t.block, "hidden": t.hidden,
    }
    if children:
        d["children"] = None if t.children is None else [tdict(c) for c in t.children]
    return d


def stream(tokens, children=True):
    return [tdict(t, children) for t in tokens]


def first_diff(a, b, path=""):
    """human-readable first difference between two JSON-like structures"""
    if type(a) is not type(b):
        return f"{path}: {a!r} != {b!r}"
    if isinstance(a, dict):
        for k in a.keys() | b.keys():
            if k not in a or k not in b:
                return f"{path}.{k}: missing on one side"
            d = first_diff(a[k], b[k], f"{path}.{k}")
            if d:
                return d
        return None
    if isinstance(a, list):
        if len(a) != len(b):
            n = min(len(a), len(b))
            for i in range(n):
                d = first_diff(a[i], b[i], f"{path}[{i}]")
                if d:
                    return d + f" (and lengths {len(a)} != {len(b)})"
            extra = (a[n:] or b[n:])[0]
            et = extra.get("type") if isinstance(extra, dict) else extra
            return f"{path}: lengths {len(a)} != {len(b)}; first extra {et!r}"
        for i, (x, y) in enumerate(zip(a, b)):
            d = first_diff(x, y, f"{path}[{i}]")
            if d:
                return d
        return None
    if a != b:
        return f"{path}: {a!r} != {b!r}"
    return None


def shape(tokens):
    """compact structural fingerprint of a stream: token types incl. children"""
    out = []
    for t in tokens:
        out.append(t.type)
        if t.children:
            out.append("(" + ",".join(c.type for c in t.children) + ")")
    return " ".join(out)


def is_nontrivial_stream(tokens):
    """>=1 block other than paragraph, or >=1 inline token other than text"""
    for t in tokens:
        if t.type not in ("paragraph_open", "paragraph_close", "inline"):
            return True
        if t.children:
            for c in t.children:
                if c.type != "text":
                    return True
    return False


def ddmin(items, fails, deadline):
    """classic delta debugging over a list; `fails(list) -> bool`"""
    n = 2
    while len(items) >= 2 and time.monotonic() < deadline:
        chunk = max(1, len(items) // n)
        reduced = False
        for i in range(0, len(items), chunk):
            cand = items[:i] + items[i + chunk:]
            if cand and fails(cand):
                items = cand
                n = max(n - 1, 2)
                reduced = True
                break
        if not reduced:
            if chunk == 1:
                break
            n = min(len(items), n * 2)
    return items


def minimize_text(src, fails, budget_s=6.0):
    """shrink by lines, then by characters; `fails(str) -> bool` must hold for src"""
    deadline = time.monotonic() + budget_s
    try:
        parts = src.split("\n")
        if len(parts) > 1:
            parts = ddmin(parts, lambda ls: fails("\n".join(ls)), deadline)
            src2 = "\n".join(parts)
            if fails(src2):
                src = src2
        if len(src) <= 400:
            chars = ddmin(list(src), lambda cs: fails("".join(cs)), deadline)
            src2 = "".join(chars)
            if fails(src2):
                src = src2
    except Exception:
        pass
    return src
