"""Shared 'parse many documents under many configurations' workload driver."""
from __future__ import annotations

from vf import conf as C
from vf import gen

_md_cache = {}


def get_md(conf):
    cid = C.conf_id(conf)
    md = _md_cache.get(cid)
    if md is None:
        if len(_md_cache) > 2000:
            _md_cache.clear()
        md = _md_cache[cid] = C.build(conf)
    return md


PANEL = [
    {"preset": "commonmark"},
    {"preset": "js-default"},
    {"preset": "commonmark", "enable": ["table", "strikethrough"]},
    {"preset": "js-default", "options": {"typographer": True}},
    {"preset": "zero"},
    {"preset": "commonmark", "disable": ["code"]},
    {"preset": "gfm-like", "stub_linkify": True},
    {"preset": "js-default", "options": {"inline_definitions": True, "store_labels": True}},
]


def documents(ctx, n, conf_sampler=None, confs_per_doc=1, lines=True, lines_confs=None, doc_gen=None):
    """yields (kind, conf, src).  A deterministic W-lines slice first (if lines), then n random documents."""
    rng = ctx.rng
    if lines:
        vocab = gen.LINE_VOCAB_SMALL
        maxlen = 2 if ctx.quick else 3
        lc = lines_confs or PANEL[:3]
        i = 0
        for src in gen.lines_cases(vocab, maxlen):
            i += 1
            if not ctx.mine(i):
                continue
            for conf in lc:
                ctx.count("wl.lines")
                yield "lines", conf, src
        ctx.info["wl_lines"] = f"all sequences of <={maxlen} lines over {len(vocab)} line shapes x {len(lc)} configurations"
    sampler = conf_sampler or (lambda r: C.sample(r) if r.random() < 0.6 else r.choice(PANEL))
    for k in range(n):
        r = rng.random()
        if doc_gen is not None:
            kind, src = doc_gen(rng)
        elif r < 0.3:
            kind, src = "soup", gen.soup(rng)
        elif r < 0.62:
            kind, src = "gram", gen.gram(rng, final_newline=rng.random() < 0.85)
        elif r < 0.9:
            kind, src = "corpus", gen.corpus_mutation(rng)
        else:
            kind, src = "unicode", gen.uni_doc(rng)
        src = gen.strip_surrogates(src)[:6000]
        ctx.count("wl." + kind)
        for _ in range(confs_per_doc):
            yield kind, sampler(rng), src


def conf_counts(ctx, conf):
    ctx.count("preset." + conf.get("preset", "commonmark"))
    for r in conf.get("disable", ()):
        ctx.count("ruleoff." + r)
    if conf.get("stub_linkify"):
        ctx.count("conf.stub_linkify")
