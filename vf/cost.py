"""Deterministic work counter and logical step budget on sys.monitoring (CPython 3.12+).

Counts, for code objects that belong to the library under test:
  * PY_START   (every Python function entry = "rule and helper invocations")
  * JUMP       backward jumps only (loop back-edges; forward jumps are disabled at first sight)
and raises StepBudgetExceeded from the callback when a budget is exceeded, so that
"does not terminate" becomes a deterministic verdict that does not depend on machine load.
"""
from __future__ import annotations

import os
import sys

mon = sys.monitoring
TOOL = mon.PROFILER_ID
E = mon.events


class StepBudgetExceeded(BaseException):
    """BaseException: must not be swallowed by `except Exception` inside the library."""


class Meter:
    def __init__(self, libdirs=None, jumps=True, depth_every=0):
        if libdirs is None:
            import markdown_it
            libdirs = [os.path.dirname(os.path.abspath(markdown_it.__file__)) + os.sep]
        self.libdirs = tuple(libdirs)
        self.jumps = jumps
        self.n = 0
        self.calls = 0
        self.backjumps = 0
        self.budget = 1 << 62
        self.max_depth = 0
        self.depth_every = depth_every
        self.installed = False
        self.target_names = None  # optional {co_name: count}
        self._libcache = {}

    def _is_lib(self, code):
        r = self._libcache.get(code)
        if r is None:
            r = self._libcache[code] = code.co_filename.startswith(self.libdirs)
        return r

    def _on_start(self, code, offset):
        if not self._is_lib(code):
            return mon.DISABLE
        self.n += 1
        self.calls += 1
        tn = self.target_names
        if tn is not None:
            nm = code.co_name
            if nm in tn:
                tn[nm] += 1
        if self.depth_every and self.calls % self.depth_every == 0:
            d = 0
            f = sys._getframe(1)
            while f is not None:
                d += 1
                f = f.f_back
            if d > self.max_depth:
                self.max_depth = d
        if self.n > self.budget:
            self.budget = 1 << 62  # fire once
            raise StepBudgetExceeded(f"step budget exceeded in {code.co_name} ({code.co_filename.rsplit(os.sep, 1)[-1]})")

    def _on_jump(self, code, offset, dest):
        if dest >= offset or not self._is_lib(code):
            return mon.DISABLE
        self.n += 1
        self.backjumps += 1
        if self.n > self.budget:
            self.budget = 1 << 62
            raise StepBudgetExceeded(f"step budget exceeded in loop of {code.co_name} ({code.co_filename.rsplit(os.sep, 1)[-1]})")

    def install(self):
        if self.installed:
            return
        mon.use_tool_id(TOOL, "vf-cost")
        mon.register_callback(TOOL, E.PY_START, self._on_start)
        ev = E.PY_START
        if self.jumps:
            mon.register_callback(TOOL, E.JUMP, self._on_jump)
            ev |= E.JUMP
        mon.set_events(TOOL, ev)
        self.installed = True

    def uninstall(self):
        if not self.installed:
            return
        mon.set_events(TOOL, 0)
        mon.register_callback(TOOL, E.PY_START, None)
        if self.jumps:
            mon.register_callback(TOOL, E.JUMP, None)
        mon.free_tool_id(TOOL)
        self.installed = False

    def start(self, budget=None):
        self.n = 0
        self.calls = 0
        self.backjumps = 0
        self.max_depth = 0
        self.budget = budget if budget is not None else (1 << 62)

    def stop(self):
        self.budget = 1 << 62
        return self.n
