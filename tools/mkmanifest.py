#!/venv/bin/python
"""Regenerates MANIFEST.json from the table below (claimed checks = monitors that exist in vf/mon)."""
import json, os
ROOT = os.path.dirname(os.path.dirname(os.path.abspath(__file__)))
CHECKS = {
 "C01": ("exploration", "call-boundary exception monitor + sys.monitoring step budget (bounded progress) over enumerated line-vocabulary sweep, hostile random/corpus/unicode workloads x sampled configurations, CLI byte files",
         "Held on the executions observed (counts in evidence): every API entry point x preset x rule toggled off is reached; non-termination is decided as a logical step budget, not wall-clock. Says nothing about inputs outside the generated shapes.",
         "trusts CPython, sys.monitoring event delivery, the stub linkifier standing in for linkify-it-py; inputs <= 8 kB"),
 "C02": ("exploration", "single-pass stack monitor over returned token streams (recursively into inline/image children) + SyntaxTreeNode construction",
         "Held on the streams observed; pairs/levels/flags are checked on every returned object, across configurations incl. stub linkifier.",
         "oracle knows only the X_open/X_close naming convention and token fields"),
 "C03": ("exploration", "structural source-map monitor over (normalised lines, tokens, env) on every parse",
         "Held on the documents observed, except the recorded known finding (Unicode-whitespace trimming).",
         "line numbering is that of the documented normalisation (cross-checked by C17)"),
 "C04": ("exploration", "strict total lexer for the renderer's own HTML language run on every html=False render, incl. fresh html-off preset instances after per-process instance histories",
         "Held on the renders observed; scanner accepts only the renderer's vocabulary so any foreign markup is a violation.",
         "scanner vocabulary = tags/attributes RendererHTML can produce; default renderer, no highlight callback"),
 "C05": ("exploration", "URL predicate monitor on link_open/image tokens and href/src attributes + literal-text twin for rejected destinations",
         "Held on the URLs observed per producer (inline, reference, autolink, image, core/inline linkify via stub).",
         "browser scheme reading modelled as: strip leading chars <= U+0020, delete tab/CR/LF, lower-case"),
 "C06": ("exploration", "twin execution: parse(D) vs parse(quote(D)) / parse(item(M,D)), iterated to depth 6",
         "Held on the law instances observed.", "allowed differences exactly those the statement lists (hidden, lazy-line leading spaces)"),
 "C07": ("exploration", "twin execution: blocks(A+blank+B) vs blocks(A)++shift(blocks(B)) with behaviourally decided side conditions",
         "Held on the admissible pairs observed.", "side conditions decided by probe parses as the statement phrases them"),
 "C08": ("exploration", "reconstruction monitor: verbatim content / markup re-derived from source lines via the token map",
         "Held on the tokens observed per kind.", "suffix-based; a dropped character that looks like a container marker at the very start of code content would be accepted (C06/C17 twins cover that)"),
 "C09": ("exploration", "templated twin: render(ctx(esc(t))) vs frame(escapeHtml(t)) in 12 contexts, backslash and character-reference forms",
         "Held on the (context, form, text) cases observed; all 32 ASCII punctuation characters seen per context.", "typographer off; contexts as listed in the property"),
 "C10": ("exploration", "set-inclusion monitor on token types vs enabled producers + on/off twins + option-route twins",
         "Held on the (configuration, input) pairs observed.", "producer map written from the documented rule list"),
 "C11": ("exploration", "history monitor: real Ruler driven in lock-step with a sequential model, compared after every call incl. raising ones; facade histories observed non-invasively with sys.monitoring; duplicate built-in rule names judged by rendering against a duplicate-free reference set to the reported rules",
         "Held on the histories observed.", "model is permissive where the statement is silent (atomic or prefix effect of a raising call)"),
 "C12": ("exploration", "history monitor with two references (same-process twin, pristine pre-history panel) + module-state fingerprint",
         "Held on the API histories observed.", "twin = replay of configuration steps only"),
 "C13": ("exploration", "controlled pre-emption scheduler on sys.monitoring (thread parked at k-th LINE/INSTRUCTION event, second call runs to completion), nested re-entry, free-running stress with compile-overlap accounting",
         "Held on the schedules observed (single and sampled double pre-emptions); sequential spec = solo result.", "mdurl caches warmed first; pre-emption at line granularity (instruction granularity inside shared-write functions)"),
 "C14": ("fault_enumeration", "fault injection at every invocation of every user callback (rules in all chains, render rules, highlight) x exception types, post-state compared with a twin; reset_rules exit paths enumerated",
         "Every crash point of each sampled document is enumerated; held on those.", "twin instance has same plug-ins, disarmed"),
 "C15": ("exploration", "direct monitors: as_dict/from_dict round trip (4 parameter combinations), tree round trip and link consistency, double render, re-render of an equal stream on a renderer object made at that moment",
         "Held on the streams observed by shape class.", "token equality = dataclass equality"),
 "C16": ("exploration", "twin executions (seeded env vs prepended definitions; reference vs inline form) + exactly-once accounting of definition events",
         "Held on the cases observed.", "label equivalence oracle = casefold + blank collapse"),
 "C17": ("exploration", "twin executions under LF/CRLF/CR/mixed, NUL vs U+FFFD, tab vs column-exact spaces; segment construction enumerated",
         "Held on the pairs observed; segment construction enumerated for <=3 segments.", "allowed differences exactly those the statement lists"),
 "C18": ("exploration", "twin executions: parseInline vs paragraph, context embeddings, token-level twins for renderer-only options",
         "Held on the cases observed.", "syntactic guards as in the property"),
 "C19": ("exploration", "twin executions typographer on/off + regex alignment of text tokens + escape immunity",
         "Held on the documents observed.", "quote alignment regex built from the twin"),
 "C20": ("exploration", "deterministic work counter (PY_START + loop back-edges via sys.monitoring) over scalable families, doubling with ratio cap; stack-depth meter",
         "Held on the families observed, except the recorded known finding (consecutive reference definitions).", "threshold is a ratio between doubling steps, never a timing"),
}
have = [p for p in sorted(CHECKS) if os.path.exists(os.path.join(ROOT, "vf", "mon", p.lower() + ".py"))]
checks = []
for p in have:
    lvl, tech, text, note = CHECKS[p]
    checks.append({
        "property_id": p,
        "quick_cmd": f"./check {p} --tier quick",
        "thorough_cmd": f"./check {p} --tier thorough",
        "evidence_file": f"evidence/{p}.json",
        "replay_cmd_template": f"./check {p} --replay {{path}}",
        "engine": "vf",
        "level_claimed": {"category": lvl, "text": text, "design_ref": f"DESIGN.md section 3, {p}"},
        "level_note": note,
        "technique": "runtime monitoring: " + tech,
    })
na = [{"property_id": p, "reason": "monitor designed (DESIGN.md section 3) but not built yet; will be claimed once its check exists and is silent on the unchanged tree"}
      for p in sorted(CHECKS) if p not in have]
m = {
 "version": 1,
 "setup_cmd": "/venv/bin/python -m vf.selftest",
 "hooks": {"guard": "MARKDOWN_IT_PY_VERIF", "enable": "no source hooks exist; all observation is external (public API wrappers, Ruler.at plug-in interface on monitoring instances, sys.monitoring). Checks export MARKDOWN_IT_PY_VERIF=1 and import /repo's working tree via PYTHONPATH.",
           "baseline_off_cmd": "cd /repo && /venv/bin/python -m pytest -ra -q -p no:cacheprovider --timeout=900 --continue-on-collection-errors",
           "source_commits": [], "add_only": True},
 "engines": [{"name": "vf", "path": "vf/", "serves_properties": have, "kind_free_text": "runtime monitors + workload generators run against the real library in sharded subprocesses (./check)"}],
 "checks": checks,
 "notes": "Exit 0 held / 1 violation (VIOLATION line + replay file) / 2 inconclusive (reach floors not met, worker timeout). Known findings: KNOWN_FINDINGS.txt. Genuine defects repaired in /repo as fix: commits are listed there as fixed: lines.",
}
if na:
    m["not_applicable"] = na
json.dump(m, open(os.path.join(ROOT, "MANIFEST.json"), "w"), indent=1)
print("claimed:", have)
