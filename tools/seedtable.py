#!/venv/bin/python
"""prints the markdown table of all seeded changes (section 8 of DESIGN.md) from seeded/*/meta.json"""
import json
import os

ROOT = os.path.dirname(os.path.dirname(os.path.abspath(__file__)))
ROUND = {"a": 1, "b": 1, "c": 2, "d": 2, "e": 3, "f": 3, "g": 4, "h": 4, "i": 5, "j": 5}
print("| id | round | file(s) | change | reported as (quick tier, seed 0) |")
print("|---|---|---|---|---|")
for name in sorted(os.listdir(os.path.join(ROOT, "seeded"))):
    p = os.path.join(ROOT, "seeded", name, "meta.json")
    if not os.path.exists(p):
        continue
    m = json.load(open(p))
    files = ", ".join(os.path.basename(f) for f in m.get("files", []))
    summ = " ".join(m.get("summary", "").split())
    if len(summ) > 170:
        summ = summ[:167] + "..."
    det = (m.get("confirmed") or {}).get("detected_by") or {}
    rep = "; ".join(f"{c}: `{r.get('first_key')}`" for c, r in det.items() if r.get("exit") == 1) or "**not reported**"
    base = (m.get("confirmed") or {}).get("patch_applies_to", "")
    if base.startswith("d4fc671"):
        rep += " (on base d4fc671)"
    print(f"| {name} | {ROUND[name[-1]]} | {files} | {summ.replace('|', '\\|')} | {rep.replace('|', '\\|')} |")
