#!/bin/bash
# usage: tools/seedcheck.sh <ID> <variant> [check-ids...]   e.g. tools/seedcheck.sh C07 a   (default check = the property itself)
# Confirms a sub-agent's change in a scratch copy (patch applies, suite unchanged, demo fails with / passes without), then runs
# the named checks (quick tier) against the scratch copy.  Prints a summary; keeps nothing.
ID=$1; V=$2; shift 2; CHECKS=${@:-$ID}
SRC=/tmp/seed-$ID-out/$V
[[ $V == c ]] && SRC=/tmp/seed2-$ID-out/a
[[ $V == d ]] && SRC=/tmp/seed2-$ID-out/b
[[ $V == e ]] && SRC=/tmp/seed3-$ID-out/a
[[ $V == f ]] && SRC=/tmp/seed3-$ID-out/b
[[ $V == g ]] && SRC=/tmp/seed4-$ID-out/a
[[ $V == h ]] && SRC=/tmp/seed4-$ID-out/b
[[ $V == i ]] && SRC=/tmp/seed5-$ID-out/a
[[ $V == j ]] && SRC=/tmp/seed5-$ID-out/b
[[ $V == k ]] && SRC=/tmp/seed6-$ID-out/a
[[ -d /verif/seeded/$ID-$V ]] && SRC=/verif/seeded/$ID-$V
D=$(mktemp -d /tmp/vf-seed-XXXXXX)
if [[ -n "${BASE:-}" ]]; then git -C /repo archive "$BASE" | tar -x -C "$D"; echo "(base tree: $BASE)"; else rsync -a --exclude .git --exclude __pycache__ /repo/ "$D/"; fi
cd "$D"
d0=$(PYTHONPATH=$D timeout 120 /venv/bin/python $SRC/demo.py >/dev/null 2>&1; echo $?)
if ! patch -p1 -s < $SRC/patch.diff >/dev/null 2>&1; then
  # written against an earlier /repo HEAD: fall back to the commit the sub-agents worked on
  cd /; rm -rf "$D"; D=$(mktemp -d /tmp/vf-seed-XXXXXX); git -C /repo archive d4fc671 | tar -x -C "$D"; cd "$D"; echo "(patch needs base tree d4fc671)"
  if ! patch -p1 -s < $SRC/patch.diff; then echo "$ID-$V: PATCH DOES NOT APPLY"; rm -rf "$D"; exit 9; fi
fi
t=$(timeout 600 /venv/bin/python -m pytest -q -p no:cacheprovider 2>&1 | tail -1)
d1=$(PYTHONPATH=$D timeout 120 /venv/bin/python $SRC/demo.py >/dev/null 2>&1; echo $?)
echo "$ID-$V: tests[$t] demo_without=$d0 demo_with=$d1"
cd ${VERIF_DIR:-/verif}
for c in $CHECKS; do
  out=$(VERIF_FAILFAST=${FAILFAST:-} VERIF_REPO="$D" timeout 1500 ./check $c --tier ${TIER:-quick} --no-evidence 2>&1); rc=$?
  echo "  check $c exit=$rc $(echo "$out" | grep -E "^  key=|INCONCL" | grep -v KNOWN | head -2 | cut -c1-260 | tr '\n' '|')"
done
rm -rf "$D"
