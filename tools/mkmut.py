#!/venv/bin/python
"""usage: tools/mkmut.py <name> <file-relative-to-repo> <old> <new> [count]  -> mutants/<name>.patch (a diff against /repo's tree)"""
import sys, difflib, os
name, rel, old, new = sys.argv[1:5]
old = old.encode().decode("unicode_escape"); new = new.encode().decode("unicode_escape")
src = open(os.path.join("/repo", rel)).read()
assert old in src, "old text not found"
cnt = int(sys.argv[5]) if len(sys.argv) > 5 else 1
mod = src.replace(old, new, cnt)
d = difflib.unified_diff(src.splitlines(True), mod.splitlines(True), "a/" + rel, "b/" + rel)
out = os.path.join("/verif/mutants", name + ".patch")
mode = "a" if os.environ.get("APPEND") else "w"
open(out, mode).write("".join(d))
print("wrote", out)
