#!/bin/bash
# usage: tools/runall.sh [tier] [props...]  -> runs the checks sequentially, prints one line per property
TIER=${1:-quick}; shift
PROPS=${@:-C01 C02 C03 C04 C05 C06 C07 C08 C09 C10 C11 C12 C13 C14 C15 C16 C17 C18 C19 C20}
cd "$(dirname "$0")/.."
for p in $PROPS; do
  s=$(date +%s)
  out=$(./check $p --tier $TIER 2>&1); rc=$?
  e=$(date +%s)
  echo "$p rc=$rc $((e-s))s $(echo "$out" | grep -E "^(VIOLATION|INCONCLUSIVE|KNOWN)" | cut -c1-160 | tr '\n' '|')"
done
