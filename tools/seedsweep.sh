#!/bin/bash
# usage: tools/seedsweep.sh "<seeds>" [props...]   quick tier, no evidence written; one line per (seed, property) that is not held
SEEDS=${1:-"1 2 3"}; shift
PROPS=${@:-C01 C02 C03 C04 C05 C06 C07 C08 C09 C10 C11 C12 C13 C14 C15 C16 C17 C18 C19 C20}
cd "$(dirname "$0")/.."
for s in $SEEDS; do for p in $PROPS; do
  out=$(VERIF_SEED=$s ./check $p --tier quick --no-evidence 2>&1); rc=$?
  echo "seed=$s $p rc=$rc $(echo "$out" | grep -E "^(VIOLATION|INCONCLUSIVE|  key=)" | cut -c1-300 | tr '\n' '|')"
done; done
