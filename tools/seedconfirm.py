#!/venv/bin/python
"""usage: tools/seedconfirm.py [ID-variant ...]   (default: every directory under seeded/)
Re-confirms seeded changes with tools/seedcheck.sh (scratch copy of /repo + patch; suite; demo both ways; quick checks against the
copy) and records the outcome under "confirmed" in seeded/<ID>-<v>/meta.json.  A change counts as caught when at least one of the
checks listed for it exits 1."""
import json
import os
import re
import subprocess
import sys

ROOT = os.path.dirname(os.path.dirname(os.path.abspath(__file__)))
# changes whose effect lies (also) in the territory of another property: the checks that are run in addition to the property's own
ALSO = {"C04-e": ["C12"], "C08-c": ["C14"], "C10-a": ["C11"], "C10-c": ["C11"], "C10-d": ["C11"], "C10-f": ["C14", "C11"], "C15-e": ["C02"],
        "C18-f": ["C14"], "C19-f": ["C12"], "C02-g": ["C11", "C10"], "C04-h": ["C12"], "C10-h": ["C11"], "C12-g": ["C14"], "C18-h": ["C12"]}


def main():
    names = sys.argv[1:] or sorted(os.listdir(os.path.join(ROOT, "seeded")))
    missed = []
    for name in names:
        d = os.path.join(ROOT, "seeded", name)
        if not os.path.isdir(d):
            continue
        pid, v = name.split("-")
        checks = [pid] + ALSO.get(name, [])
        out = subprocess.run([os.path.join(ROOT, "tools", "seedcheck.sh"), pid, v] + checks, capture_output=True, text=True).stdout
        m = re.search(r"tests\[(.*?)\] demo_without=(\d+) demo_with=(\d+)", out)
        det = {}
        for cm in re.finditer(r"check (C\d\d) exit=(\d+)\s*(?:key=(\S+))?", out):
            det[cm.group(1)] = {"exit": int(cm.group(2)), "first_key": cm.group(3)}
        base = "d4fc671 (the commit the change was written against)" if "needs base tree" in out else "current /repo HEAD"
        meta_p = os.path.join(d, "meta.json")
        meta = json.load(open(meta_p))
        meta.setdefault("breaks_property", pid)
        meta.setdefault("written_by", "independent sub-agent that saw only the property text and a scratch worktree of the repository")
        meta["confirmed"] = {
            "patch_applies_to": base,
            "existing_suite_with_patch": re.sub(r" in [\d.]+s.*", "", m.group(1)) if m else "?",
            "demo_exit_without_patch": int(m.group(2)) if m else None,
            "demo_exit_with_patch": int(m.group(3)) if m else None,
            "how": f"tools/seedcheck.sh {pid} {v} {' '.join(checks)}  (scratch copy of /repo under /tmp + patch; pytest; demo.py both ways; VERIF_REPO=<copy> ./check <ID> --tier quick; copy removed)",
            "detected_by": det,
        }
        json.dump(meta, open(meta_p, "w"), indent=1, ensure_ascii=False)
        caught = [c for c, r in det.items() if r["exit"] == 1]
        print(f"{name}: suite[{meta['confirmed']['existing_suite_with_patch']}] demo {meta['confirmed']['demo_exit_without_patch']}->{meta['confirmed']['demo_exit_with_patch']} caught_by={caught or 'NONE'} {det}", flush=True)
        if not caught:
            missed.append(name)
    print("MISSED:", missed)


main()
