import random, sys, collections, re
from gen import doc, configs
from markdown_it import MarkdownIt

def blocks(toks, shift=0):
    out = []
    for t in toks:
        d = t.as_dict(children=False)
        d.pop("children")
        if d["map"]: d["map"] = [d["map"][0]+shift, d["map"][1]+shift]
        out.append(d)
    return out
def nlines(s): return s.count("\n")

def main(seed, n):
    rng = random.Random(seed)
    seen = collections.Counter(); cnt = collections.Counter()
    cfgs = configs()
    for k in range(n):
        A = doc(rng, 5, True); B = doc(rng, 5, True)
        if not A.endswith("\n"): A += "\n"
        if not B.endswith("\n"): B += "\n"
        A = A.replace("\t", " "); B = B.replace("\t", " ")
        if not B.strip() or B[0] in " \n": cnt["skipB"] += 1; continue
        for name, mk in cfgs.items():
            md = mk()
            tA = md.parse(A); tB = md.parse(B)
            probe = md.parse(A + "\nzzz\n")
            la = nlines(A)
            if blocks(probe) != blocks(tA) + blocks(md.parse("zzz\n"), la+1):
                cnt["A-open"] += 1; continue
            if tA and tB and tA[-1].type.endswith("list_close") and tB[0].type.endswith("list_open"):
                cnt["listlist"] += 1; continue
            tAB = md.parse(A + "\n" + B)
            cnt["ok"] += 1
            if blocks(tAB) != blocks(tA) + blocks(tB, la+1):
                a, b = blocks(tAB), blocks(tA) + blocks(tB, la+1)
                msg = "len %d %d" % (len(a), len(b))
                for x, y in zip(a, b):
                    if x != y: msg = "%s %r" % (x["type"], {k: (x[k], y[k]) for k in x if x[k] != y[k]}); break
                key = re.sub(r"\d+", "N", msg)[:60]
                if seen[key] < 3: print(name, msg[:300], repr(A), repr(B))
                seen[key] += 1
    print(cnt, seen.most_common(20))
main(int(sys.argv[1]), int(sys.argv[2]))
