import random, sys, collections, re
from gen import doc
from markdown_it import MarkdownIt
from markdown_it.token import Token
from markdown_it.tree import SyntaxTreeNode
from markdown_it.common.utils import escapeHtml, unescapeAll
seen = collections.Counter(); cnt = collections.Counter()
# ---- C05 literal-text clause
BAD = ["javascript:x", "JaVaScRiPt:alert(1)", "vbscript:x", "file:///etc", "data:text/html,x", "&#106;avascript:x", "java\\script:x"]
TMPL = {"link": ("[t](%s)", ["link"]), "linkang": ("[t](<%s>)", ["link"]), "image": ("![t](%s)", ["image"]), "auto": ("<%s>", ["autolink"]), "ref": ("[t][r]\n\n[r]: %s\n", ["link"]), "imgref": ("![t][r]\n\n[r]: %s\n", ["image"])}
for b in BAD:
    for name, (tm, rules) in TMPL.items():
        if name == "auto" and ("&" in b or "\\" in b): continue
        src = tm % b
        for preset in ("commonmark", "js-default"):
            a = MarkdownIt(preset).render(src); bb = MarkdownIt(preset).disable(rules).render(src)
            cnt["c05"] += 1
            if a != bb or "<a" in a or "<img" in a:
                seen["c05 " + name] += 1; print("C05", name, repr(src), repr(a), repr(bb))
# ---- C18 option twins
def hl(content, lang, attrs): hl.calls.append((content, lang, attrs)); return "\x02" + escapeHtml(content) + "\x03"
rng = random.Random(5)
for k in range(3000):
    src = doc(rng) + rng.choice(["", "\n```py x y\ncode <&\n```\n", "\n~~~ a&amp;b\\* z\nq\n~~~\n", "a  \nb\\\nc\nd ![x\ny](u)\n"])
    preset = rng.choice(["commonmark", "js-default"])
    base = MarkdownIt(preset, {"breaks": False, "xhtmlOut": False, "langPrefix": "P1-"})
    toks = base.parse(src); env = {}
    h0 = base.render(src)
    cnt["c18"] += 1
    for opt, val in (("breaks", True), ("xhtmlOut", True), ("langPrefix", "P2-"), ("highlight", hl)):
        m = MarkdownIt(preset, {"breaks": False, "xhtmlOut": False, "langPrefix": "P1-", opt: val})
        if [t.as_dict() for t in m.parse(src)] != [t.as_dict() for t in toks]: seen["c18 tokens " + opt] += 1
        hl.calls = []
        h = m.render(src)
        if opt == "breaks":
            t2 = base.parse(src)
            for t in t2:
                for c in t.children or []:
                    if c.type == "softbreak": c.type = "hardbreak"
            want = base.renderer.render(t2, base.options, {})
            # env needed for references? render rules don't use env
            if h != want:
                seen["c18 breaks"] += 1
                if seen["c18 breaks"] < 3: print("BREAKS", repr(src)[:200], repr(h)[:200], repr(want)[:200])
        elif opt == "xhtmlOut":
            if preset == "js-default":
                if re.sub(r"<(br|hr|img)((?: [a-z]+=\"[^\"]*\")*) />", r"<\1\2>", h) != h0: seen["c18 xhtml exact"] += 1
            if h.replace(" />", ">") != h0.replace(" />", ">"): seen["c18 xhtml"] += 1
        elif opt == "langPrefix":
            if "P1-" not in src and "P2-" not in src and h.replace("P2-", "P1-") != h0: seen["c18 lang"] += 1
        else:
            if h.replace("\x02", "").replace("\x03", "") != h0: seen["c18 hl"] += 1
            fences = [t for t in toks if t.type == "fence"]
            # nested fences (inside containers) are top-level tokens too
            exp = []
            for t in fences:
                info = unescapeAll(t.info).strip() if t.info else ""
                arr = info.split(maxsplit=1) if info else []
                exp.append((t.content, arr[0] if arr else "", arr[1] if len(arr) == 2 else ""))
            if hl.calls != exp: seen["c18 hl args"] += 1
            cnt["c18 fences"] += len(fences)
# ---- C15 tree
for k in range(2000):
    src = doc(rng)
    toks = MarkdownIt("js-default").parse(src)
    tree = SyntaxTreeNode(toks)
    cnt["c15"] += 1
    flat = []
    def order(ts):
        for t in ts:
            if t.nesting >= 0: flat.append(t)
            if t.children and t.type in ("inline", "image"): order(t.children)
    order(toks)
    walked = [n.token or n.nester_tokens.opening for n in tree.walk(include_self=False)]
    if [id(x) for x in walked] != [id(x) for x in flat]: seen["c15 walk"] += 1
    for n in tree.walk():
        for i, c in enumerate(n.children):
            if c.parent is not n: seen["c15 parent"] += 1
            if c.siblings is not n.children and list(c.siblings) != n.children: seen["c15 sib"] += 1
            if c.previous_sibling is not (n.children[i-1] if i else None): seen["c15 prev"] += 1
            if c.next_sibling is not (n.children[i+1] if i + 1 < len(n.children) else None): seen["c15 next"] += 1
print(cnt, seen.most_common())
