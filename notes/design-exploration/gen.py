"""scratch generator: markdown-ish documents from a seeded RNG (exploration only)"""
import random

WORDS = ["a", "b", "foo", "bar", "x1", "Baz", "é", "ß", "的", "q"]
INLINE_ATOMS = [
    "*", "**", "_", "__", "~~", "`", "``", "[", "]", "(", ")", "![", "<", ">", "&", "&amp;", "&#35;", "&#x22;",
    "\\", "\\*", "\\[", "\\\\", "!", "\"", "'", "--", "...", "(c)", "+-", "|", ":", "http://x.y/z", "<http://a.b>",
    "<b>", "</b>", "<!-- c -->", "[r]", "[r][]", "[t][r]", "](u)", "](<u v> \"t\")", "  ", " ", " ", " ", "\t",
    "#", "=", "-", "+", "1.", "~", "^", "{", "}", " ", " ", "\x0b", "\x0c",
]
LINE_STARTS = [
    "", "", "", "", " ", "  ", "   ", "    ", "\t", "> ", ">", ">\t", "- ", "* ", "+ ", "-\t", "1. ", "2) ", "10. ", "# ", "## ", "###### ",
    "```", "~~~", "````", "---", "***", "___", "===", "= ", "[r]: ", "[r]: /u \"t\"", "<div>", "</div>", "<!--", "-->", "<?", "<pre>", "</pre>",
    "| a | b |", "|---|---|", "a | b", "-|-", ":-:|-:", "    code", "\tcode",
]


def inline(rng, n=None):
    n = n if n is not None else rng.randint(0, 8)
    out = []
    for _ in range(n):
        if rng.random() < 0.45:
            out.append(rng.choice(WORDS))
        else:
            out.append(rng.choice(INLINE_ATOMS))
        if rng.random() < 0.3:
            out.append(" ")
    return "".join(out)


def line(rng):
    s = ""
    for _ in range(rng.choice([0, 1, 1, 1, 2, 2, 3])):
        s += rng.choice(LINE_STARTS)
    s += inline(rng)
    return s


def doc(rng, maxlines=10, final_newline=None):
    n = rng.randint(0, maxlines)
    lines = []
    for _ in range(n):
        r = rng.random()
        if r < 0.15:
            lines.append("")
        elif r < 0.2:
            lines.append(rng.choice([" ", "  ", "\t", ">", "> ", "-", "   "]))
        else:
            lines.append(line(rng))
    s = "\n".join(lines)
    if final_newline is None:
        final_newline = rng.random() < 0.7
    if final_newline and s:
        s += "\n"
    return s


def configs():
    """a few representative configurations -> factory"""
    from markdown_it import MarkdownIt
    def cm(): return MarkdownIt("commonmark")
    def js(): return MarkdownIt("js-default")
    def zero(): return MarkdownIt("zero")
    def cmx(): return MarkdownIt("commonmark").enable(["table", "strikethrough"])
    def jst(): return MarkdownIt("js-default", {"typographer": True})
    def nocode(): return MarkdownIt("commonmark").disable("code")
    return {"cm": cm, "js": js, "zero": zero, "cmx": cmx, "jst": jst, "nocode": nocode}
