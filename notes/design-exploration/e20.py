import sys, time
from markdown_it import MarkdownIt
FAM = {
 "brackets_open": lambda n: "[" * n,
 "brackets_nested": lambda n: "[" * (n//2) + "]" * (n//2),
 "links_nested": lambda n: "[" * (n//6) + "a" + "](x)" * (n//6),
 "emph_open": lambda n: "*a " * (n//3),
 "emph_alt": lambda n: "*_" * (n//2),
 "emph_closers": lambda n: "a* " * (n//3),
 "emph_pathological": lambda n: "*a_ " * (n//4),
 "backticks_unmatched": lambda n: "".join("`" * (i % 20 + 1) + " " for i in range(n//12)),
 "backticks_long": lambda n: "`" * n,
 "entities": lambda n: "&amp;" * (n//5),
 "entities_bad": lambda n: "&a" * (n//2),
 "angle": lambda n: "<" * n,
 "angle2": lambda n: "<a " * (n//3),
 "quotes_nested": lambda n: ">" * n,
 "quotes_lines": lambda n: "> a\n" * (n//4),
 "lists_nested": lambda n: "".join(" " * (2*i) + "- a\n" for i in range(int((n)**.5))),
 "list_flat": lambda n: "- a\n" * (n//4),
 "lazy": lambda n: "> a\n" + "b\n" * (n//2),
 "table_rows": lambda n: "|a|b|\n|-|-|\n" + "|c|d|\n" * (n//6),
 "refdefs": lambda n: "".join("[r%d]: /u\n" % i for i in range(n//10)),
 "refdefs_sep": lambda n: "".join("[r%d]: /u\n\n" % i for i in range(n//11)),
 "paragraph_lines": lambda n: "abc\n" * (n//4),
 "escapes": lambda n: "\\*" * (n//2),
 "hr_like": lambda n: "- " * (n//2),
 "fence_unclosed": lambda n: "```\n" + "a\n" * (n//2),
 "html_block": lambda n: "<div>\n" + "a\n" * (n//2),
 "setext": lambda n: "a\n" * (n//2) + "===\n",
 "img_nested": lambda n: "![" * (n//5) + "a" + "](x)" * (n//5),
 "strike": lambda n: "~~a " * (n//4),
 "autolinks": lambda n: "<http://a.b> " * (n//13),
 "nested_em_links": lambda n: "*[a](b)* " * (n//9),
}
def cost(md, src):
    c = [0]
    def prof(frame, ev, arg):
        if ev == "call" and "markdown_it" in frame.f_code.co_filename: c[0] += 1
    sys.setprofile(prof)
    try: md.render(src)
    finally: sys.setprofile(None)
    return c[0]
L = int(sys.argv[1])
for preset in ("commonmark", "js-default"):
    md = MarkdownIt(preset)
    if preset == "js-default": md.enable(["table","strikethrough"])
    else: md.enable(["table","strikethrough"])
    for name, f in FAM.items():
        t0 = time.time()
        cs = [cost(md, f(l)) for l in (L, 2*L, 4*L)]
        lens = [len(f(l)) for l in (L, 2*L, 4*L)]
        r1, r2 = cs[1]/max(cs[0],1), cs[2]/max(cs[1],1)
        flag = "  <<<<" if max(r1, r2) > 2.5 else ""
        print(f"{preset[:2]} {name:20s} cost/char {cs[0]/lens[0]:8.2f} {cs[1]/lens[1]:8.2f} {cs[2]/lens[2]:8.2f} ratios {r1:.2f} {r2:.2f} t={time.time()-t0:.1f}s{flag}")
