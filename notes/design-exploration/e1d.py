import random, io, os, contextlib, tempfile, collections
from markdown_it.cli.parse import main
rng = random.Random(1); exc = collections.Counter(); ex = {}
corpus = open('/repo/tests/test_port/fixtures/commonmark_extras.md','rb').read()
d = tempfile.mkdtemp(prefix="vfexp")
p = os.path.join(d, "f.md")
for k in range(3000):
    r = rng.random()
    if r < .3: b = bytes(rng.randrange(256) for _ in range(rng.randint(0, 200)))
    elif r < .6:
        i = rng.randrange(len(corpus)); b = bytearray(corpus[i:i+rng.randint(1, 400)])
        for _ in range(rng.randint(0, 5)):
            if b: b[rng.randrange(len(b))] = rng.randrange(256)
        b = bytes(b)
    else: b = b"".join(rng.choice([b"\xed\xa0\x80", b"\xf4\x90\x80\x80", b"\xc0\xaf", b"\xff", b"> ", b"- ", b"\r", b"\x00", b"a|b\n-|-\n", b"[x](\xe2\x82", b"\n", "é".encode(), b"`", b"*"]) for _ in range(rng.randint(1, 40)))
    open(p, "wb").write(b)
    out = io.StringIO()
    try:
        with contextlib.redirect_stdout(out): rc = main([p])
        assert rc == 0
    except BaseException as e:
        key = (type(e).__name__, str(e)[:50]); exc[key] += 1; ex.setdefault(key, b)
os.remove(p); os.rmdir(d)
print(exc, ex)
