import random, sys, collections, re, itertools
from gen import doc, configs
from markdown_it import MarkdownIt

def dump(toks): return [t.as_dict() for t in toks]

def expand_leading(line):
    m = re.match(r"^[ \t]*", line)
    lead = m.group(0); col = 0
    for ch in lead: col += (4 - col % 4) if ch == "\t" else 1
    return " " * col + line[len(lead):]

def strip_verbatim(d):
    out = []
    for x in d:
        x = dict(x)
        if x["type"] in ("code_block", "fence", "html_block"):
            x["content"] = re.sub(r"[ \t]+", " ", re.sub(r"(?m)^[ \t]+", "", x["content"]))
        if x["type"] == "inline":
            x["content"] = re.sub(r"\n[ \t]+", "\n", x["content"])
            def fix(ch):
                for c in ch or []:
                    if c["type"] == "code_inline": c["content"] = re.sub(r"[ \t]+", " ", c["content"])
                    if c["type"] == "image": c["content"] = re.sub(r"\n[ \t]+", "\n", c["content"])
                    fix(c.get("children"))
            fix(x["children"])
        out.append(x)
    return out

def main(seed, n):
    rng = random.Random(seed)
    seen = collections.Counter(); cnt = collections.Counter()
    cfgs = configs()
    for k in range(n):
        src = doc(rng)
        src = src.replace("\r", "")
        for name, mk in cfgs.items():
            md = mk()
            base = dump(md.parse(src)); html = md.render(src)
            for enc, rep in (("crlf", "\r\n"), ("cr", "\r")):
                v = src.replace("\n", rep)
                cnt[enc] += 1
                if dump(md.parse(v)) != base or md.render(v) != html:
                    key = enc
                    if seen[key] < 3: print(enc, name, repr(src))
                    seen[key] += 1
            # tabs (a)
            if "\t" in src:
                v = "\n".join(expand_leading(l) for l in src.split("\n"))
                if v != src:
                    cnt["tab-a"] += 1
                    a, b = strip_verbatim(dump(md.parse(v))), strip_verbatim(base)
                    if a != b:
                        key = "tab-a"
                        if seen[key] < 6: print("tab-a", name, repr(src), "\n   ", repr(v))
                        seen[key] += 1
    print(cnt, seen.most_common())
if __name__ == "__main__": main(int(sys.argv[1]), int(sys.argv[2]))
