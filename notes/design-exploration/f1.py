from markdown_it import MarkdownIt
from markdown_it.token import Token
import traceback
def t(name, f):
    try:
        print(name, '=>', repr(f()))
    except BaseException as e:
        print(name, 'RAISED', type(e).__name__, e)

# C01 table in blockquote
for src in ["> a|b\n> -|-\n>", "> a|b\n> -|-\n> ", ">a|b\n>-|-\n>\n", "> a|b\n> -|-\n>x\n>"]:
    t('C01 js-default '+repr(src), lambda: MarkdownIt('js-default').render(src))
    t('C01 cm+table   '+repr(src), lambda: MarkdownIt().enable('table').render(src))
# C08 hr markup
t('C08 hr', lambda: [ (x.markup) for x in MarkdownIt().parse('---\n***\n_ _ _\n')])
# C09 alt
t('C09 alt', lambda: MarkdownIt().render('![a\\*b &amp; c](x)'))
t('C02 img children', lambda: [c.type for c in MarkdownIt().parse('![a\\*b &amp; c](x)')[1].children[0].children])
# C10 definitions render
md = MarkdownIt(); md.options['inline_definitions']=True
t('C10 def render', lambda: md.render('[a]: b\n\nx [a]\n'))
t('C10 no def render', lambda: MarkdownIt().render('[a]: b\n\nx [a]\n'))
# C10 attr route
md = MarkdownIt(); md.options.inline_definitions=True
t('C10 attr route inline_definitions', lambda: [x.type for x in md.parse('[a]: b\n')])
md = MarkdownIt(); md.options.html=False
t('C10 attr route html', lambda: md.render('<b>x</b>'))
# C11 stale cache
md = MarkdownIt()
md.parse('x')
try: md.inline.ruler.enableOnly(['text','nope'])
except KeyError as e: print('KeyError', e)
t('C11 active', lambda: md.inline.ruler.get_active_rules())
t('C11 render', lambda: md.render('*a* `b`'))
# C14 reset_rules
md = MarkdownIt()
try:
    with md.reset_rules():
        md.disable('emphasis')
        raise RuntimeError('boom')
except RuntimeError: pass
t('C14 after', lambda: md.render('*a*'))
# C17 tab
t('C17 tab', lambda: MarkdownIt().render('>\t>\t- x'))
t('C17 spc', lambda: MarkdownIt().render('>   >   - x'))
# C15 as_dict children False
tok = MarkdownIt().parse('a *b*')[1]
t('C15 children=False roundtrip', lambda: Token.from_dict(tok.as_dict(children=False)) == tok)
t('C15 children=True roundtrip', lambda: Token.from_dict(tok.as_dict()) == tok)
t('C15 as_upstream=False roundtrip', lambda: Token.from_dict(tok.as_dict(as_upstream=False)) == tok)
# C08 code span NBSP
t('C08 codespan nbsp', lambda: MarkdownIt().parseInline('`   `')[0].children[0].content)
t('C08 codespan spaces', lambda: MarkdownIt().parseInline('`   `')[0].children[0].content)
t('C08 codespan vt', lambda: MarkdownIt().parseInline('` \x0b `')[0].children[0].content)
