import random, sys, collections, re
from gen import doc
from markdown_it import MarkdownIt
from markdown_it.common.utils import normalizeReference
def d(ts): return [t.as_dict() for t in ts]
DEST = ["/u", "http://x.y/z?a=b&c", "<a b>", "<>", "a(b)c", "a\\(b", "&amp;x", "%20x", "é", "x#f", "a\\*b", "<a\\>b>", "&#35;", "javascript:x", "a_b_c", "a*b*", "x\\\\y"]
TITLE = ["", ' "t"', " 't'", " (t)", ' "a \\" b"', ' "&amp; *x*"', ' "multi\nline"', " 'it''s'", ' "é"', ' ""', " '\\''", ' "a\\\\"', ' "(x)"', " (a\\)b)"]
TEXT = ["t", "*e*", "`c`", "a b", "x\\]y", "![i](s)", "é", "a\nb", "&amp;", "[in]"]
LABELS = ["r", "R", "Foo Bar", "foo  bar", "ß", "SS", "ẞ", "É", "é", "ǅ", "ǆ", "Σ", "ς", "σ", "İ", "ı", "K", "k", "\xa0x", "x\ty", "a\nb", "[x\\]"]
def main(seed, n):
    rng = random.Random(seed); seen = collections.Counter(); cnt = collections.Counter()
    md = MarkdownIt("commonmark")
    for k in range(n):
        # part 3: reference vs inline
        text, dest, title = rng.choice(TEXT), rng.choice(DEST), rng.choice(TITLE)
        for bang in ("", "!"):
            inl = f"{bang}[{text}]({dest}{title})"
            ref = f"{bang}[{text}][r]\n\n[r]: {dest}{title}\n"
            ti = md.parse(inl); tr = md.parse(ref)
            cnt["p3"] += 1
            def links(ts):
                out = []
                for t in ts:
                    for c in t.children or []:
                        if c.type in ("link_open", "image"): out.append((c.type, dict(c.attrs)))
                return out
            li, lr = links(ti), links(tr)
            top = lambda L: [x for x in L if x[0] == ("image" if bang else "link_open") and x[1].get("href", x[1].get("src")) not in ("s",)]
            if bool(top(li)) != bool(top(lr)) or (top(li) and (li != lr or d(ti[1].children) != d(tr[1].children))):
                key = "p3 " + bang
                if seen[key] < 6: print(key, repr(inl), links(ti), links(tr))
                seen[key] += 1
        # part 1: env seeding
        D = doc(rng, 6)
        labs = [rng.choice(LABELS) for _ in range(rng.randint(1, 3))]
        R = "".join(f"[{l}]: /{i}{rng.choice(TITLE)}\n" for i, l in enumerate(labs) if "\n" not in l or True)
        D2 = D + "\n\n" + " ".join(f"[{rng.choice(LABELS)}]" for _ in range(3)) + "\n"
        env = {}
        if md.parse(R, env): cnt["badR"] += 1; continue
        h1 = md.render(D2, env); h2 = md.render(R + "\n" + D2)
        cnt["p1"] += 1
        if h1 != h2:
            key = "p1"
            if seen[key] < 4: print(key, repr(R), repr(D2)[:200], "\n  ", repr(h1)[:300], "\n  ", repr(h2)[:300])
            seen[key] += 1
    print(cnt, seen.most_common())
main(int(sys.argv[1]), int(sys.argv[2]))
