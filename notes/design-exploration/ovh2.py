import sys
from markdown_it import MarkdownIt
import markdown_it.ruler as R
ops=[0]; lines=[0]; calls=[0]
def tr(frame, ev, arg):
    if not frame.f_code.co_filename.endswith("ruler.py"): return None
    if ev == "call":
        calls[0]+=1
        frame.f_trace_opcodes = True
    elif ev == "opcode": ops[0]+=1
    elif ev == "line": lines[0]+=1
    return tr
md2 = MarkdownIt()
sys.settrace(tr)
md2.render("# a\n\n- *b*\n")
sys.settrace(None)
print("calls", calls[0], "lines", lines[0], "opcode events in ruler.py during first-use render:", ops[0])
