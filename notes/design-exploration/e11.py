import sys, random, collections
from markdown_it import MarkdownIt
from markdown_it.ruler import Ruler
from markdown_it import parser_block, parser_inline, parser_core
# ---- (1) non-invasive applied-rule observation
NAMES = {}
for chain, rules in (("block", parser_block._rules), ("inline", parser_inline._rules), ("core", parser_core._rules), ("inline2", parser_inline._rules2)):
    for r in rules: NAMES[r[1].__code__] = (chain, r[0])
def observe(md, probe="a\n^\n"):
    seen = []
    mon = sys.monitoring; TID = 4
    mon.use_tool_id(TID, "obs")
    def cb(code, off):
        if code in NAMES and NAMES[code] not in seen: seen.append(NAMES[code])
    mon.register_callback(TID, mon.events.PY_START, cb)
    mon.set_events(TID, mon.events.PY_START)
    try: md.parse(probe)
    finally:
        mon.set_events(TID, 0); mon.free_tool_id(TID)
    out = collections.defaultdict(list)
    for c, n in seen: out[c].append(n)
    return dict(out)
for preset in ("commonmark", "js-default", "zero"):
    md = MarkdownIt(preset)
    obs = observe(md); act = md.get_active_rules()
    print(preset, {c: obs.get(c, []) == act[c] for c in act}, [ (c, obs.get(c), act[c]) for c in act if obs.get(c, []) != act[c]])
md = MarkdownIt(); md.parse("x")
try: md.inline.ruler.enableOnly(["text", "nope"])
except KeyError: pass
print("stale:", observe(md).get("inline"), md.get_active_rules()["inline"])
# ---- (2) model-based Ruler histories
def model_check(seed, nhist):
    rng = random.Random(seed); bad = collections.Counter(); ops = collections.Counter()
    for h in range(nhist):
        r = Ruler(); model = []  # list of [name, enabled, fn, alt]
        fid = [0]
        def newfn():
            fid[0] += 1
            f = lambda *a, _i=fid[0]: _i
            return f
        def check(tag):
            for chain in ("", "p", "q", "zz"):
                got = r.getRules(chain)
                names_active = r.get_active_rules(); allr = r.get_all_rules()
                exp = [m[2] for m in model if m[1] and (chain == "" or chain in m[3])]
                if got != exp: bad["applied!=model " + tag] += 1; return False
            if r.get_all_rules() != [m[0] for m in model] or r.get_active_rules() != [m[0] for m in model if m[1]]:
                bad["reported!=model " + tag] += 1; return False
            return True
        for step in range(rng.randint(3, 25)):
            op = rng.choice(["push", "before", "after", "at", "enable", "enableOnly", "disable", "getRules"])
            name = rng.choice(["a", "b", "c", "d", "zz"]); ref = rng.choice(["a", "b", "c", "d", "zz"])
            alt = rng.sample(["p", "q"], rng.randint(0, 2)); ign = rng.random() < .5
            names = rng.choice([name, [name], [name, ref], [ref, name, rng.choice("abcd")]])
            find = lambda n: next((i for i, m in enumerate(model) if m[0] == n), -1)
            ops[op] += 1
            try:
                if op == "push":
                    f = newfn(); r.push(name, f, {"alt": alt}); model.append([name, True, f, alt])
                elif op in ("before", "after"):
                    f = newfn(); getattr(r, op)(ref, name, f, {"alt": alt})
                    i = find(ref); model.insert(i if op == "before" else i + 1, [name, True, f, alt])
                elif op == "at":
                    f = newfn(); r.at(name, f, {"alt": alt}); i = find(name); model[i][2] = f; model[i][3] = alt
                elif op == "getRules": r.getRules(rng.choice(["", "p", "q", "zz"]))
                else:
                    # apply to model with prefix semantics
                    ns = [names] if isinstance(names, str) else names
                    if op == "enableOnly":
                        for m in model: m[1] = False
                    raised = None
                    for n in ns:
                        i = find(n)
                        if i < 0:
                            if ign: continue
                            raised = n; break
                        model[i][1] = (op != "disable")
                    try:
                        getattr(r, op)(names, ign)
                        assert raised is None, "model raised but impl did not"
                    except KeyError:
                        assert raised is not None, "impl raised but model did not"
                        ops[op + "-raise"] += 1
            except KeyError:
                pass
            if not check(op): break
    return ops, bad
print(model_check(1, 3000))
