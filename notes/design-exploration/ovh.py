import sys, time
from markdown_it import MarkdownIt
src = open('/repo/benchmarking/samples/spec.md').read()[:60000]
md = MarkdownIt("js-default"); md.render("x")
t=time.time(); md.render(src); base=time.time()-t
# sys.monitoring PY_START + JUMP budget
mon = sys.monitoring; TID = 3
mon.use_tool_id(TID, "budget")
cnt=[0]
def cb(*a): cnt[0]+=1
mon.register_callback(TID, mon.events.PY_START, cb)
mon.register_callback(TID, mon.events.JUMP, cb)
mon.set_events(TID, mon.events.PY_START | mon.events.JUMP)
t=time.time(); md.render(src); m1=time.time()-t
mon.set_events(TID, 0)
print("base %.3f  PY_START+JUMP %.3f (x%.1f) events=%d  per char %.1f" % (base, m1, m1/base, cnt[0], cnt[0]/len(src)))
# opcode tracing cost in ruler only
import markdown_it.ruler as R
ops=[0]
def tr(frame, ev, arg):
    if frame.f_code.co_filename != R.__file__: return None
    frame.f_trace_opcodes = True
    if ev == "opcode": ops[0]+=1
    return tr
sys.settrace(tr)
md2 = MarkdownIt(); md2.render("# a\n\n- *b*\n")
sys.settrace(None)
print("opcode events in ruler.py during first-use render:", ops[0])
