import sys, time
from markdown_it import MarkdownIt
FAM = {
 "bt_escaped_pairs": lambda n: "``\\" * (n//3),
 "bt_incr": lambda n: "".join("e" + "`" * x for x in range(int((2*n)**.5))),
 "emph_star_us_star": lambda n: "**_* " * (n//5),
 "emph_nested_inlines": lambda n: "*" * (n//2) + "a" + "*" * (n//2),
 "emph_closers_noopen": lambda n: "a_ " * (n//3),
 "emph_openers_noclose": lambda n: "_a " * (n//3),
 "link_closers": lambda n: "a]" * (n//2),
 "link_openers": lambda n: "[a" * (n//2),
 "emph_mismatch": lambda n: "*a_ " * (n//4),
 "cmark389": lambda n: "*a " * (n//8) + "_a*_ " * (n//10),
 "mult3": lambda n: "a**b" + "c* " * (n//3),
 "link_emph": lambda n: "[ a_" * (n//4),
 "pat1": lambda n: "[ (](" * (n//5),
 "pat2": lambda n: "![[]()" * (n//6),
 "hard_link_emph": lambda n: "**x [a*b**c*](d)" * (n//16),
 "unclosedA": lambda n: "[a](<b" * (n//6),
 "unclosedB": lambda n: "[a](b" * (n//5),
 "unclosed_comment": lambda n: "</" + "<!--" * (n//4),
 "nested_list_empty": lambda n: "- " * (n//3) + "x" + "\n" * (n//3),
 "bq_list_empty": lambda n: "> " + "- " * (n//5) + "x\n" + ">\n" * (n//5),
 "emph_deep_bq": lambda n: ">" * (n//3) + "a*" * (n//3),
 "star_us_alt": lambda n: "*_" * (n//2),
 "us_runs": lambda n: "_a_ " * (n//4) ,
 "tilde": lambda n: "~~a~ " * (n//5),
}
def cost(md, src, cap):
    mon = sys.monitoring; TID = 4
    c = [0, 0]
    class Cap(Exception): pass
    def cb(code, *a):
        if "markdown_it" in code.co_filename:
            c[0] += 1
            if c[0] > cap: raise Cap()
        else: return mon.DISABLE
    mon.use_tool_id(TID, "cost")
    mon.register_callback(TID, mon.events.PY_START, cb)
    mon.register_callback(TID, mon.events.JUMP, cb)
    mon.set_events(TID, mon.events.PY_START | mon.events.JUMP)
    try: md.render(src)
    except Cap: c[1] = 1
    except RecursionError: c[1] = 2
    finally:
        mon.set_events(TID, 0); mon.free_tool_id(TID)
    return c[0] if not c[1] else float("inf")
L = int(sys.argv[1])
for preset in ("commonmark", "js-default"):
    md = MarkdownIt(preset).enable(["table","strikethrough"])
    for name, f in FAM.items():
        t0 = time.time()
        cs = []
        for l in (L, 2*L, 4*L):
            s = f(l); cs.append(cost(md, s, 3000*len(s)+10000))
        lens = [len(f(l)) for l in (L, 2*L, 4*L)]
        r1, r2 = cs[1]/max(cs[0],1), cs[2]/max(cs[1],1)
        flag = "  <<<<" if max(r1, r2) > 2.6 or cs[2] == float("inf") else ""
        print(f"{preset[:2]} {name:20s} cost/char {cs[0]/lens[0]:8.2f} {cs[1]/lens[1]:8.2f} {cs[2]/lens[2]:8.2f} ratios {r1:.2f} {r2:.2f} t={time.time()-t0:.1f}s{flag}")
