import sys, threading, collections, time
from markdown_it import MarkdownIt
import mdurl; mdurl.encode("x")
A = "# h\n\n- a *b* [c](d)\n\n> q `c`\n"
B = "para **x**\n\n1. one\n2. two\n"
solo = MarkdownIt()
wantA, wantB = solo.render(A), solo.render(B)
LIB = "markdown_it"
class Budget(BaseException): pass

def run_b(md, res, budget):
    steps = [0]
    def trb(frame, ev, arg):
        if LIB not in frame.f_code.co_filename: return None
        if ev == "line":
            steps[0] += 1
            if steps[0] > budget: raise Budget()
        return trb
    sys.settrace(trb)
    try: res["B"] = md.render(B)
    except Budget: res["B"] = "<<NONTERMINATION>>"
    except Exception as e: res["B"] = "EXC %r" % e
    finally: sys.settrace(None)
    res["Bsteps"] = steps[0]

def run_with_preempt(k, budget=20000):
    md = MarkdownIt()
    n = [0]; res = {}
    def tr(frame, ev, arg):
        if LIB not in frame.f_code.co_filename: return None
        if ev == "line":
            n[0] += 1
            if n[0] == k:
                res["at"] = "%s:%d" % (frame.f_code.co_filename.split("/")[-1], frame.f_lineno)
                t = threading.Thread(target=run_b, args=(md, res, budget))
                t.start(); t.join()     # A is parked here while B runs to completion
            if n[0] > 50000: raise Budget()
        return tr
    sys.settrace(tr)
    try: res["A"] = md.render(A)
    except Budget: res["A"] = "<<NONTERMINATION A>>"
    except Exception as e: res["A"] = "EXC %r" % e
    finally: sys.settrace(None)
    return n[0], res
total, _ = run_with_preempt(-1)
print("line events in A:", total, flush=True)
bad = collections.Counter(); ex = {}; where = collections.Counter()
t0 = time.time()
step = int(sys.argv[1]) if len(sys.argv) > 1 else 1
tried = 0
for k in range(1, total+1, step):
    if time.time()-t0 > 120: print("stopped at k", k); break
    _, res = run_with_preempt(k); tried += 1
    okA = res.get("A") == wantA; okB = res.get("B") == wantB
    if not (okA and okB):
        key = ("A" if not okA else "") + ("B" if not okB else "") + (" NT" if res.get("B") == "<<NONTERMINATION>>" else "")
        bad[key] += 1; ex.setdefault(key, (k, res)); where[res["at"]] += 1
print("tried", tried, bad, "time", time.time()-t0)
print(where.most_common())
for k, v in ex.items(): print(k, v[0], {a: str(b)[:80] for a, b in v[1].items()})
