import random, sys, collections, re, itertools
from markdown_it import MarkdownIt
from e17 import dump, strip_verbatim

MARKERS = [">", "-", "*", "+", "1.", "12)"]
LEAVES = ["x", "# h", "x y", "```", "---", "- z", "> q", "<div>", "[r]: /u", "    code", "a|b"]

def spell(c0, c1, rng, tabs):
    """blank run from col c0 to c1"""
    n = c1 - c0
    if not tabs or c1 % 4 != 0 or n == 0: return " " * n
    j = rng.randrange(0, n)
    col = c0 + j; s = " " * j
    while col < c1:
        s += "\t"; col += 4 - col % 4
    assert col == c1
    return s

def build(rng):
    nseg = rng.randint(1, 3)
    segs = []
    for _ in range(nseg):
        segs.append((rng.randint(0, 3), rng.choice(MARKERS), rng.randint(1, 4)))
    leaf = rng.choice(LEAVES)
    def render(tabs, r):
        col = 0; s = ""
        for ind, m, bl in segs:
            s += spell(col, col+ind, r, tabs); col += ind
            s += m; col += len(m)
            s += spell(col, col+bl, r, tabs); col += bl
        return s + leaf
    return segs, leaf, render

def main(seed, n):
    rng = random.Random(seed)
    seen = collections.Counter(); cnt = collections.Counter()
    md = MarkdownIt("commonmark").enable("table")
    for k in range(n):
        segs, leaf, render = build(rng)
        sp = render(False, rng)
        tb = render(True, random.Random(rng.random()))
        if sp == tb: cnt["same"] += 1; continue
        nl = rng.choice(["", "\n", "\nnext\n", "\n\n    more\n"])
        a = strip_verbatim(dump(md.parse(sp + nl))); b = strip_verbatim(dump(md.parse(tb + nl)))
        cnt["cmp"] += 1
        if a != b:
            nq = sum(1 for s in segs if s[1] == ">")
            # which marker precedes the first tab?
            key = "".join("Q" if s[1]==">" else "L" for s in segs)
            if seen[key] < 3: print(key, repr(sp), repr(tb), "\n   ", md.render(sp+nl)[:200].replace("\n","|"), "\n   ", md.render(tb+nl)[:200].replace("\n","|"))
            seen[key] += 1
    print(cnt, seen.most_common())
main(int(sys.argv[1]), int(sys.argv[2]))
