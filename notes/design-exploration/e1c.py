import random, collections, time, sys
from gen import doc
from markdown_it import MarkdownIt
exc = collections.Counter(); ex = {}
class Budget(Exception): pass
def run(md, src):
    mon = sys.monitoring; TID = 4; c = [0]; cap = 4000 * (len(src) + 16) * 6
    def cb(code, *a):
        c[0] += 1
        if c[0] > cap: raise Budget()
    mon.use_tool_id(TID, "b"); mon.register_callback(TID, mon.events.PY_START, cb); mon.register_callback(TID, mon.events.JUMP, cb)
    mon.set_events(TID, mon.events.PY_START | mon.events.JUMP)
    try: md.render(src); md.renderInline(src)
    finally: mon.set_events(TID, 0); mon.free_tool_id(TID)
rng = random.Random(3); n = 0; t0 = time.time()
for k in range(4000):
    src = doc(rng)
    for preset in ("commonmark", "js-default", "zero"):
        for mn in (1, 2, 3, 5):
            md = MarkdownIt(preset, {"maxNesting": mn, "typographer": True})
            if preset != "zero": md.enable(["table", "strikethrough", "replacements", "smartquotes"])
            n += 1
            try: run(md, src)
            except BaseException as e:
                key = (preset, mn, type(e).__name__, str(e)[:40]); exc[key] += 1; ex.setdefault(key, src)
print(n, time.time() - t0, exc); print(ex)
