import random, sys, collections, re
from gen import doc, configs
from markdown_it import MarkdownIt

def norm(src):
    return re.sub(r"\r\n?|\n", "\n", src).replace("\0", "�")

def blank(l): return l.strip(" \t") == ""

def check_maps(src, toks, env):
    errs = []
    s = norm(src)
    lines = s.split("\n")
    if s.endswith("\n"): lines = lines[:-1]
    N = len(lines)
    stack = []  # (token, map)
    prev_end = [0]  # per depth: end of previous sibling
    for i, t in enumerate(toks):
        if t.nesting == -1:
            stack.pop(); prev_end.pop()
            continue
        m = t.map
        if m is not None:
            b, e = m
            if not (0 <= b < e <= N): errs.append(f"range {t.type} {m} N={N}"); 
            else:
                if blank(lines[b]): errs.append(f"startblank {t.type} {m}")
                if t.type in ("paragraph_open", "heading_open", "hr", "code_block", "tr_open") and blank(lines[e-1]):
                    errs.append(f"endblank {t.type} {m}")
                # enclosing
                for (pt, pm) in reversed(stack):
                    if pm is not None:
                        if not (pm[0] <= b and e <= pm[1]): errs.append(f"notinside {t.type} {m} in {pt.type} {pm}")
                        break
                if t.type != "inline":
                    if b < prev_end[-1]: errs.append(f"order {t.type} {m} prev_end={prev_end[-1]}")
                    prev_end[-1] = max(prev_end[-1], e)
                else:
                    cl = t.content.split("\n")
                    if len(cl) != e - b and not (t.content == "" ):
                        k = (e-b) - len(cl)
                        ok = False
                        if k > 0:
                            for o in range(k+1):
                                if all(c.lstrip(" \t") in lines[b+o+i] for i, c in enumerate(cl)):
                                    skipped = lines[b:b+o] + lines[b+o+len(cl):e]
                                    if all(re.sub(r"[>\-+*0-9.)]", "", x).strip() == "" and re.sub(r"[>\-+*0-9.)]", "", x).strip(" \t") != "" for x in skipped):
                                        ok = True
                        if ok: errs.append("KNOWN unicode-ws strip")
                        else: errs.append(f"inline-span {m} content-lines={len(cl)} {t.content!r}")
                    else:
                        for k, c in enumerate(cl):
                            if b+k < N and c.lstrip(" \t") not in lines[b+k]: errs.append(f"inline-line {m} {k} {c!r} notin {lines[b+k]!r}")
        if t.nesting == 1:
            stack.append((t, m)); prev_end.append(m[0] if m else prev_end[-1])
    # coverage
    covered = [False]*N
    for t in toks:
        if t.level == 0 and t.map and t.nesting >= 0:
            for k in range(max(0,t.map[0]), min(N,t.map[1])): covered[k] = True
    for lab, r in (env.get("references") or {}).items():
        for k in range(r["map"][0], min(N, r["map"][1])): covered[k] = True
    for r in env.get("duplicate_refs", []):
        for k in range(r["map"][0], min(N, r["map"][1])): covered[k] = True
    for k in range(N):
        if not blank(lines[k]) and not covered[k]: errs.append(f"uncovered line {k} {lines[k]!r}")
    return errs

def main(seed, n):
    rng = random.Random(seed)
    cfgs = configs()
    seen = collections.Counter()
    for k in range(n):
        src = doc(rng)
        for name, mk in cfgs.items():
            md = mk()
            env = {}
            try:
                toks = md.parse(src, env)
            except Exception as e:
                continue
            for e in check_maps(src, toks, env):
                key = re.sub(r"\d+", "N", e.split("{")[0])[:40]
                key = re.sub(r"'.*", "", key)
                if seen[key] < 3: print("ERR", name, e, repr(src))
                seen[key]+=1
    print(seen.most_common(40))
if __name__ == "__main__":
    main(int(sys.argv[1]), int(sys.argv[2]))
