import random, sys, collections, re
from gen import inline
from markdown_it import MarkdownIt
def d(ts): return [t.as_dict() for t in ts]
def find_inline(toks): 
    r = [t for t in toks if t.type == "inline"]
    return r
def main(seed, n):
    rng = random.Random(seed); seen = collections.Counter(); cnt = collections.Counter()
    md = MarkdownIt("commonmark").enable(["table", "strikethrough"])
    for k in range(n):
        t = inline(rng, rng.randint(1, 8)).strip()
        t = t.replace("\t", " ")
        if not t or "\n" in t: continue
        base = md.parse(t)
        if not (len(base) == 3 and base[0].type == "paragraph_open" and base[1].content == t): cnt["notpara"] += 1; continue
        ref = d(base[1].children); refh = md.renderInline(t)
        ctxs = {"head": ("## %s", "<h2>%s</h2>\n"), "li": ("- %s", "<ul>\n<li>%s</li>\n</ul>\n"), "bq": ("> %s", "<blockquote>\n<p>%s</p>\n</blockquote>\n"),
                "cell": ("| %s |\n|---|\n", "<table>\n<thead>\n<tr>\n<th>%s</th>\n</tr>\n</thead>\n</table>\n")}
        for cn, (tm, ex) in ctxs.items():
            if cn in ("li", "bq") and not t[0].isalnum(): continue
            if cn == "head" and t.endswith("#"): continue
            if cn == "cell" and re.search(r"[|\\`]", t): continue
            src = tm % t
            toks = md.parse(src); inl = find_inline(toks)
            cnt[cn] += 1
            if len(inl) != 1 or inl[0].content != t:
                key = cn + " content"
                if seen[key] < 4: print(key, repr(t), repr(src), [x.content for x in inl])
                seen[key] += 1; continue
            if d(inl[0].children) != ref or md.render(src) != ex % refh:
                key = cn + " children/html"
                if seen[key] < 4: print(key, repr(t), repr(src))
                seen[key] += 1
    print(cnt, seen.most_common())
main(int(sys.argv[1]), int(sys.argv[2]))
