import random, sys, collections, re
from gen import doc
from markdown_it import MarkdownIt
def shape(t):
    d = t.as_dict(children=False); d.pop("children"); 
    if t.type == "text": d.pop("content")
    if t.type == "inline": d.pop("content")   # raw content same anyway
    if t.type == "image": d["attrs"] = [a for a in d["attrs"] if a[0] != "alt"]
    return d
def flat(ts, out):
    for t in ts:
        out.append(t)
        if t.children: 
            out.append("<"); flat(t.children, out); out.append(">")
    return out
def main(seed, n):
    rng = random.Random(seed); seen = collections.Counter(); cnt = collections.Counter()
    for k in range(n):
        src = doc(rng)
        q = rng.choice(["“”‘’", "«»„“", ["«\xa0", "\xa0»", "‹\xa0", "\xa0›"], ["", "", "", ""], ['"', '"', "'", "'"], ["abc", "'", '"x"', ""]])
        preset = rng.choice(["commonmark", "js-default"])
        which = rng.choice([["replacements"], ["smartquotes"], ["replacements", "smartquotes"]])
        off = MarkdownIt(preset, {"typographer": False, "quotes": q}).enable(["table","strikethrough"])
        on = MarkdownIt(preset, {"typographer": True, "quotes": q}).enable(["table","strikethrough"]).enable(which)
        for r in ("replacements", "smartquotes"):
            if r not in which: on.disable(r)
        a = flat(off.parse(src), []); b = flat(on.parse(src), [])
        cnt["docs"] += 1
        if len(a) != len(b):
            if seen["len"] < 3: print("len", repr(src)); 
            seen["len"] += 1; continue
        for x, y in zip(a, b):
            if isinstance(x, str) or isinstance(y, str):
                if x != y: seen["struct"] += 1
                continue
            if shape(x) != shape(y):
                key = "shape " + x.type
                if seen[key] < 3: print(key, repr(src)[:200], shape(x), shape(y))
                seen[key] += 1
            if x.type == "text" and x.content != y.content:
                cnt["textchanged"] += 1
                if which == ["smartquotes"]:
                    qs = list(q)
                    rx = "".join(("(?:\"|%s|%s)" % (re.escape(qs[0]), re.escape(qs[1]))) if c == '"' else ("(?:'|’|%s|%s)" % (re.escape(qs[2]), re.escape(qs[3]))) if c == "'" else re.escape(c) for c in x.content)
                    if not re.fullmatch(rx, y.content, re.S):
                        key = "sq-text"
                        if seen[key] < 5: print(key, repr(q), repr(x.content), repr(y.content))
                        seen[key] += 1
    print(cnt, seen.most_common())
main(int(sys.argv[1]), int(sys.argv[2]))
