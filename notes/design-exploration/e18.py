import random, sys, collections, re
from gen import doc, inline, configs
from markdown_it import MarkdownIt
def d(ts): return [t.as_dict() for t in ts]
def main(seed, n):
    rng = random.Random(seed); seen = collections.Counter(); cnt = collections.Counter()
    cfgs = configs()
    for k in range(n):
        src = inline(rng, rng.randint(1, 10))
        if rng.random() < .3: src += "\n" + inline(rng)
        for name, mk in cfgs.items():
            md = mk()
            toks = md.parse(src)
            if len(toks) == 3 and toks[0].type == "paragraph_open" and toks[1].content == src:
                cnt["single"] += 1
                pi = md.parseInline(src)
                if not (len(pi) == 1 and pi[0].type == "inline" and d(pi[0].children) == d(toks[1].children)):
                    key = "children"
                    if seen[key] < 4: print(key, name, repr(src))
                    seen[key] += 1
                h = md.render(src); hi = md.renderInline(src)
                if h != "<p>" + hi + "</p>\n":
                    key = "html"
                    if seen[key] < 4: print(key, name, repr(src), repr(h), repr(hi))
                    seen[key] += 1
    print(cnt, seen.most_common())
main(int(sys.argv[1]), int(sys.argv[2]))
