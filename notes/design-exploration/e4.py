import random, sys, collections, re
from gen import doc
from markdown_it import MarkdownIt

TAGS = {"p","h1","h2","h3","h4","h5","h6","blockquote","ul","ol","li","pre","code","em","strong","s","a","img","br","hr","table","thead","tbody","tr","th","td"}
VOID = {"img","br","hr"}
ATTRS = {"a": {"href","title"}, "img": {"src","alt","title"}, "ol": {"start"}, "code": {"class"}, "th": {"style"}, "td": {"style"}}
TOK = re.compile(r'<(/?)([A-Za-z][A-Za-z0-9]*)((?: [A-Za-z][A-Za-z0-9-]*="[^"<>]*")*)( /)?>|([^<>"&]+|&(?:amp|lt|gt|quot);)')
ATTR = re.compile(r' ([A-Za-z][A-Za-z0-9-]*)="([^"<>]*)"')
def scan(html):
    pos = 0; stack = []
    while pos < len(html):
        m = TOK.match(html, pos)
        if not m: return f"lex error at {pos}: {html[pos:pos+30]!r}"
        pos = m.end()
        if m.group(2):
            close, name, attrs, slash = m.group(1), m.group(2), m.group(3), m.group(4)
            if name not in TAGS: return f"tag {name}"
            for an, av in ATTR.findall(attrs):
                if an not in ATTRS.get(name, ()): return f"attr {name}.{an}"
                if re.search(r"&(?!(?:amp|lt|gt|quot);)", av): return f"attr entity {av!r}"
            if close:
                if attrs or slash: return "close with attrs"
                if not stack or stack[-1] != name: return f"nesting: </{name}> stack={stack[-3:]}"
                stack.pop()
            elif name in VOID: pass
            else:
                if slash: return f"self-closed non-void {name}"
                stack.append(name)
    if stack: return f"unclosed {stack}"
    return None

def main(seed, n):
    rng = random.Random(seed); seen = collections.Counter(); cnt = 0
    for k in range(n):
        src = doc(rng)
        opts = {"html": False, "typographer": rng.random()<.5, "breaks": rng.random()<.5, "xhtmlOut": rng.random()<.5,
                "langPrefix": rng.choice(["language-", "", "<\"&>", "l "]), "quotes": rng.choice(["“”‘’", "<>&\"", ["<<",">>","&","\""]]),
                "store_labels": rng.random()<.5, "inline_definitions": rng.random()<.3}
        preset = rng.choice(["js-default", "commonmark", "zero"])
        md = MarkdownIt(preset, opts)
        if preset != "zero" and rng.random() < .5: md.enable(["table", "strikethrough"])
        try: html = md.render(src)
        except Exception as e: continue
        cnt += 1
        r = scan(html)
        if r:
            key = re.sub(r"\d+", "N", r)[:25]
            if seen[key] < 3: print(preset, opts["inline_definitions"], r, repr(src)[:300], "\n  ", repr(html)[:300])
            seen[key] += 1
    print(cnt, seen.most_common())
main(int(sys.argv[1]), int(sys.argv[2]))
