import random, sys, collections, re, html as H, string
from markdown_it import MarkdownIt
from markdown_it.common.utils import escapeHtml, isValidEntityCode
PUNCT = string.punctuation
ALPH = list(string.ascii_letters[:6]) + list(PUNCT) + [" ", " ", "\t", "é", "的", "\xa0", " ", "«", "—", "​", "­", "ß", "\x01", "\x7f", "\x1b", "\x0b", "\x0c"]
def rt(rng, ctrl=True):
    while True:
        t = "".join(rng.choice(ALPH) for _ in range(rng.randint(1, 8)))
        if not ctrl: t = "".join(c for c in t if isValidEntityCode(ord(c)) and ord(c) not in (9,))
        if t and t.strip() == t: return t
def esc_bs(t): return "".join("\\" + c if c in PUNCT else c for c in t)
def esc_ref(rng, t):
    out = ""
    for c in t:
        r = rng.random()
        if c in PUNCT or r < .3:
            out += rng.choice(["&#%d;" % ord(c), "&#x%X;" % ord(c), "&#x%x;" % ord(c)])
        else: out += c
    return out
CTX = {
 "para": ("%s", "<p>%s</p>\n"),
 "head": ("# %s", "<h1>%s</h1>\n"),
 "em": ("*a %s a*", "<p><em>a %s a</em></p>\n"),
 "strong": ("__a %s a__", "<p><strong>a %s a</strong></p>\n"),
 "linktext": ("[%s](u)", '<p><a href="u">%s</a></p>\n'),
 "alt": ("![%s](u)", '<p><img src="u" alt="%s" /></p>\n'),
 "title": ('[x](u "%s")', '<p><a href="u" title="%s">x</a></p>\n'),
 "title2": ("[x](u '%s')", '<p><a href="u" title="%s">x</a></p>\n'),
 "cell": ("| %s |\n|-|\n", "<table>\n<thead>\n<tr>\n<th>%s</th>\n</tr>\n</thead>\n</table>\n"),
 "li": ("- %s", "<ul>\n<li>%s</li>\n</ul>\n"),
 "bq": ("> %s", "<blockquote>\n<p>%s</p>\n</blockquote>\n"),
}
def main(seed, n):
    rng = random.Random(seed); seen = collections.Counter(); cnt = collections.Counter()
    mds = {"cm": MarkdownIt("commonmark").enable(["table","strikethrough"]), "js": MarkdownIt("js-default", {"xhtmlOut": True})}
    for k in range(n):
        form = rng.choice(["bs", "ref"])
        t = rt(rng, ctrl=(form == "bs"))
        e = esc_bs(t) if form == "bs" else esc_ref(rng, t)
        for cname, (tm, ex) in CTX.items():
            src = tm % e
            want = ex % escapeHtml(t.replace("\0", "�"))
            for mn, md in mds.items():
                got = md.render(src); cnt[cname] += 1
                if got != want:
                    key = f"{cname} {form}"
                    if seen[key] < 3: print(key, mn, repr(t), repr(src), "\n   got ", repr(got), "\n   want", repr(want))
                    seen[key] += 1
    print(cnt, seen.most_common())
main(int(sys.argv[1]), int(sys.argv[2]))
