import random, sys, collections, re, copy
from gen import doc
from markdown_it import MarkdownIt

def dump(toks, dlevel=0, drop_hidden=False, strip_lead=False):
    out = []
    for t in toks:
        d = t.as_dict()
        d["level"] -= dlevel
        if drop_hidden: d["hidden"] = False
        if strip_lead and t.type == "inline":
            d["content"] = re.sub(r"\n[ ]+", "\n", d["content"])
            def fix(ch):
                if ch is None: return
                for c in ch or []:
                    if c["type"] == "code_inline": c["content"] = re.sub(r"  +", " ", c["content"])
                    if c["type"] == "image": c["content"] = re.sub(r"\n[ ]+", "\n", c["content"])
                    fix(c.get("children"))
            fix(d["children"])
        out.append(d)
    return out

def quote_law(md_factory, D):
    md = md_factory()
    e1 = {}; t1 = md.parse(D, e1)
    Dq = "".join("> " + l + "\n" for l in D.split("\n")[:-1])
    e2 = {}; t2 = md.parse(Dq, e2)
    if not D.strip(" \n"):
        return None
    if not (len(t2) >= 2 and t2[0].type == "blockquote_open" and t2[-1].type == "blockquote_close" and t2[-1].level == 0
            and sum(1 for t in t2 if t.level == 0) == 2):
        return "not exactly one blockquote"
    if dump(t1) != dump(t2[1:-1], 1): 
        a, b = dump(t1), dump(t2[1:-1], 1)
        for x, y in zip(a, b):
            if x != y: return "inner differs: %r vs %r" % ({k: (x[k], y[k]) for k in x if x[k] != y[k]}, x["type"])
        return "inner differs len %d %d" % (len(a), len(b))
    if e1 != e2: return "env differs"
    return None

def list_law(md_factory, D, marker):
    md = md_factory()
    if not D or D[0] in " \n": return None
    W = len(marker)
    lines = D.split("\n")[:-1]
    Dl = marker + lines[0] + "\n" + "".join((" " * W + l) + "\n" for l in lines[1:])
    e1 = {}; t1 = md.parse(D, e1)
    e2 = {}; t2 = md.parse(Dl, e2)
    if t2 and t2[0].type == "hr" and t2[0].map == [0,1]: return None # thematic break precedence
    if not (len(t2) >= 4 and t2[0].type in ("bullet_list_open", "ordered_list_open") and t2[1].type == "list_item_open" and t2[-2].type == "list_item_close"
            and t2[-1].level == 0 and sum(1 for t in t2 if t.level == 0) == 2 and sum(1 for t in t2 if t.level == 1) == 2):
        return "not one-item list"
    a, b = dump(t1, 0, True, True), dump(t2[2:-2], 2, True, True)
    if a != b:
        for x, y in zip(a, b):
            if x != y: return "inner differs: %r %s" % ({k: (x[k], y[k]) for k in x if x[k] != y[k]}, x["type"])
        return "inner differs len %d %d" % (len(a), len(b))
    if e1 != e2: return "env differs"
    return None

def main(seed, n):
    rng = random.Random(seed)
    seen = collections.Counter()
    mk = lambda: MarkdownIt("commonmark")
    mkx = lambda: MarkdownIt("commonmark").enable(["table","strikethrough"])
    cnt = collections.Counter()
    for k in range(n):
        D = doc(rng, maxlines=6, final_newline=True)
        if "\t" in D or not D.endswith("\n"): 
            D = D.replace("\t", " ")
            if not D.endswith("\n"): D += "\n"
        for nm, f in (("cm", mk), ("cmx", mkx)):
            r = quote_law(f, D); cnt["q"] += 1
            if r:
                key = "Q " + re.sub(r"\d+", "N", r)[:50]
                if seen[key] < 3: print(nm, "QUOTE", r[:300], repr(D))
                seen[key] += 1
        marker = rng.choice(["- ", "* ", "+ ", "1. ", "7) ", "-  ", "-   ", "-    ", "12.  "])
        r = list_law(mk, D, marker); cnt["l"] += 1
        if r:
            key = "L " + re.sub(r"\d+", "N", r)[:50]
            if seen[key] < 3: print("LIST", repr(marker), r[:300], repr(D))
            seen[key] += 1
    print(cnt, seen.most_common(30))
main(int(sys.argv[1]), int(sys.argv[2]))
