import sys, random, collections, copy
from gen import doc
from markdown_it import MarkdownIt
PROBES = ["*a* [r] \"q\" (c)\n\n[r]: /x 't'\n", "> - 1. x\n\ty\n\n<b>z</b>\n", "a|b\n-|-\n~~s~~ http://x.y\n", "[r]\n", "```py\nc\n```\n![i](s \"t\")\n"]
PANEL = [("commonmark", {}), ("js-default", {}), ("zero", {}), ("js-default", {"typographer": True, "breaks": True}), ("commonmark", {"html": False, "xhtmlOut": False})]
pristine = {i: [MarkdownIt(p, o).render(x) for x in PROBES] for i, (p, o) in enumerate(PANEL)}
def rr(self, tokens, idx, options, env): return "<hr class=x>"
RULES = ["table", "strikethrough", "emphasis", "link", "list", "code", "blockquote", "backticks", "smartquotes", "replacements", "html_inline"]
def main(seed, n):
    rng = random.Random(seed); bad = collections.Counter(); steps = collections.Counter()
    for h in range(n):
        insts = []; cfgsteps = []
        for s in range(rng.randint(3, 30)):
            k = rng.choice(["new", "parse", "parse", "render", "pinline", "enable", "disable", "opt_item", "opt_attr", "rrule", "badcall"])
            if not insts: k = "new"
            steps[k] += 1
            if k == "new":
                p = rng.choice(["commonmark", "js-default", "zero", "gfm-like"]); o = rng.choice([{}, {"typographer": True}, {"html": False}, {"quotes": ["<", ">", "(", ")"]}])
                if p == "gfm-like": o = dict(o, linkify=False)
                insts.append(MarkdownIt(p, o)); cfgsteps.append([("new", p, dict(o))]); continue
            i = rng.randrange(len(insts)); md = insts[i]
            if k in ("parse", "render", "pinline"):
                env = rng.choice([None, {}, "shared"])
                if env == "shared": env = getattr(md, "_shared_env", None) or {}; md._shared_env = env
                src = doc(rng, 6) + rng.choice(["", "\n[r]: /leak\n", "\n[R]: /leak2 'x'\n"])
                f = {"parse": md.parse, "render": md.render, "pinline": md.parseInline}[k]
                f(src) if env is None else f(src, env)
            elif k in ("enable", "disable"):
                names = rng.sample(RULES, rng.randint(1, 3)); getattr(md, k)(names, True); cfgsteps[i].append((k, names))
            elif k == "opt_item":
                kv = rng.choice([("breaks", True), ("xhtmlOut", False), ("langPrefix", "l-"), ("typographer", True), ("html", False)]); md.options[kv[0]] = kv[1]; cfgsteps[i].append(("opt", kv))
            elif k == "opt_attr":
                kv = rng.choice([("breaks", True), ("xhtmlOut", True), ("typographer", False), ("html", True)]); setattr(md.options, kv[0], kv[1]); cfgsteps[i].append(("opt", kv))
            elif k == "rrule":
                md.add_render_rule("hr", rr); cfgsteps[i].append(("rr",))
            elif k == "badcall":
                try: md.parse(123)
                except TypeError: pass
                try: md.enable("nope")
                except ValueError: pass
        # probes
        for i, md in enumerate(insts):
            twin = None
            for st in cfgsteps[i]:
                if st[0] == "new": twin = MarkdownIt(st[1], st[2])
                elif st[0] in ("enable", "disable"): getattr(twin, st[0])(st[1], True)
                elif st[0] == "opt": twin.options[st[1][0]] = st[1][1]
                elif st[0] == "rr": twin.add_render_rule("hr", rr)
            for x in PROBES + ["---\n"]:
                if md.render(x) != twin.render(x): bad["used!=fresh"] += 1
                if [t.as_dict() for t in md.parse(x)] != [t.as_dict() for t in md.parse(x, {})]: bad["envNone!=env{}"] += 1
        for j, (p, o) in enumerate(PANEL):
            if [MarkdownIt(p, o).render(x) for x in PROBES] != pristine[j]: bad["fresh!=pristine"] += 1
    print(steps, bad)
main(int(sys.argv[1]), int(sys.argv[2]))
