import random, sys, collections, re, html as H
from markdown_it import MarkdownIt
SAFE = re.compile(r"^(?:[A-Za-z0-9;/?:@&=+$,\-_.!~*'()#]|%[0-9A-Fa-f]{2})*$")
BAD = re.compile(r"^(?:javascript|vbscript|file|data):")
GOOD = re.compile(r"^data:image/(?:gif|png|jpeg|webp)")
def browser_bad(u):
    u = u.lstrip("".join(map(chr, range(0x21)))).lower()
    u = re.sub(r"[\t\n\r]", "", u)
    return bool(BAD.match(u)) and not GOOD.match(u)

class StubLink:
    def __init__(s, url, text, index, last_index, schema): s.url, s.text, s.index, s.last_index, s.schema = url, text, index, last_index, schema
class StubLinkify:
    RE = re.compile(r"(?:(?:[a-zA-Z][a-zA-Z0-9+.-]*):(?://)?|www\.)[^\s<>]+")
    def pretest(s, t): return True
    def test(s, t): return bool(s.RE.search(t))
    def match(s, t): return [StubLink(m.group(0), m.group(0), m.start(), m.end(), (m.group(0).split(":")[0]+":") if ":" in m.group(0) else "") for m in s.RE.finditer(t)]
    def match_at_start(s, t):
        m = s.RE.match(t)
        return StubLink(m.group(0), m.group(0), 0, m.end(), "") if m else None

SCHEMES = ["javascript", "vbscript", "file", "data", "JavaScript", "JAVASCRIPT", "jAvAsCrIpT", "http", "mailto", "data"]
def spell(rng, s):
    out = ""
    for ch in s:
        r = rng.random()
        if r < .1: out += "&#%d;" % ord(ch)
        elif r < .2: out += "&#x%x;" % ord(ch)
        elif r < .25: out += ch.swapcase()
        elif r < .3 and not ch.isalnum(): out += "\\" + ch
        else: out += ch
    return out
def dest(rng):
    sch = rng.choice(SCHEMES)
    pre = rng.choice(["", "", "", " ", "&#9;", "&#10;", "&#x1;", "&Tab;", "&NewLine;", "%20", "\x01", "\x7f", " ", "&#32;", "&colon;"])
    colon = rng.choice([":", ":", ":", "&colon;", "&#58;", "&#x3a;", "\\:", "%3A"])
    rest = rng.choice(["alert(1)", "//x.y/z", "image/png;base64,AAAA", "text/html,<b>", "image/svg+xml;x", "IMAGE/GIF;x", "/etc/passwd", "x y", "é的", "[a]", "a%zz", "%", "a\"b", "a&b", "a'b"])
    return pre + spell(rng, sch) + colon + rest
def main(seed, n):
    rng = random.Random(seed); seen = collections.Counter(); cnt = collections.Counter()
    for k in range(n):
        d = dest(rng)
        tmpl = rng.choice(["[t](%s)", "[t](<%s>)", "![t](%s)", "<%s>", "[t][r]\n\n[r]: %s", "[t][r]\n\n[r]: <%s>", "![t][r]\n\n[r]: %s 'ti'", "see %s end", "[t](%s \"ti\")", "[![i](%s)](%s)"])
        src = tmpl.replace("%s", d)
        for preset in ("commonmark", "js-default"):
            md = MarkdownIt(preset, {"linkify": True}); md.linkify = StubLinkify()
            md.enable("linkify")
            try: toks = md.parse(src); html = md.render(src)
            except Exception as e:
                key = "EXC %s" % type(e).__name__
                if seen[key] < 3: print(key, e, repr(src))
                seen[key] += 1; continue
            urls = []
            def walk(ts):
                for t in ts:
                    if t.type == "link_open": urls.append(t.attrs["href"])
                    if t.type == "image": urls.append(t.attrs["src"])
                    if t.children: walk(t.children)
            walk(toks)
            for m in re.finditer(r'(?:href|src)="([^"]*)"', html):
                urls.append(H.unescape(m.group(1)))
            for u in urls:
                cnt["url"] += 1
                if not SAFE.match(u):
                    key = "UNSAFE"
                    if seen[key] < 5: print(key, repr(u), repr(src))
                    seen[key] += 1
                if browser_bad(u):
                    key = "BADSCHEME"
                    if seen[key] < 5: print(key, repr(u), repr(src))
                    seen[key] += 1
            if not urls: cnt["nourl"] += 1
    print(cnt, seen.most_common())
main(int(sys.argv[1]), int(sys.argv[2]))
