import sys, collections, re, itertools
from markdown_it import MarkdownIt
from e17 import dump, strip_verbatim
MARKERS = [">", "-", "1."]
LEAVES = ["x", "# h", "- z", "> q", "    code", "```"]
def spellings(c0, c1):
    n = c1 - c0
    out = [" " * n]
    if c1 % 4 == 0 and n > 0:
        for j in range(0, n):
            col = c0 + j; s = " " * j
            while col < c1: s += "\t"; col += 4 - col % 4
            if s not in out: out.append(s)
    return out
def variants(segs, leaf):
    res = [""]
    col = 0
    for ind, m, bl in segs:
        a = spellings(col, col+ind); col += ind
        col += len(m)
        b = spellings(col, col+bl); col += bl
        res = [r + x + m + y for r in res for x in a for y in b]
    return [r + leaf for r in res]
md = MarkdownIt("commonmark")
seen = collections.Counter(); cnt = collections.Counter()
segspace = [(i, m, b) for i in range(4) for m in MARKERS for b in range(1, 5)]
for nseg in (1, 2, 3):
    for segs in itertools.product(segspace, repeat=nseg):
        if nseg == 3 and (segs[0][0] > 1 or segs[1][0] > 1 or segs[2][0] > 0): continue
        for leaf in LEAVES:
            vs = variants(segs, leaf)
            base = strip_verbatim(dump(md.parse(vs[0] + "\n")))
            for v in vs[1:]:
                cnt[nseg] += 1
                if strip_verbatim(dump(md.parse(v + "\n"))) != base:
                    key = "".join("Q" if s[1]==">" else "L" for s in segs)
                    if seen[key] < 4: print(key, repr(vs[0]), repr(v), "\n   ", md.render(vs[0])[:150].replace("\n","|"), "\n   ", md.render(v)[:150].replace("\n","|"))
                    seen[key] += 1
print(cnt, seen.most_common())
