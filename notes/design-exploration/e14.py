import sys, random, collections
from markdown_it import MarkdownIt
DOC = "# h *e*\n\n- a [l](u) `c`\n  > q ![i](s)\n\n```py\nx\n```\n\n[r]: /u\n\n| a | b |\n|---|---|\n| c | [r] |\n"
PROBES = [DOC, "*a* [r]\n\n[r]: /x\n", "> - 1. x\n\ty\n", "a\n^\n"]
class Boom(Exception): pass
def build(armed):
    md = MarkdownIt("commonmark", {"highlight": None}).enable(["table", "strikethrough"])
    ctr = collections.Counter(); state = {"target": armed}
    def hit(name):
        ctr[name] += 1
        if state["target"] == (name, ctr[name]): raise Boom(name)
    md.core.ruler.before("block", "p_core1", lambda s: hit("core1"))
    md.core.ruler.push("p_core2", lambda s: hit("core2"))
    md.block.ruler.before("table", "p_blk1", lambda s, a, b, silent: hit("blk1") or False, {"alt": ["paragraph", "reference", "blockquote", "list"]})
    md.block.ruler.before("paragraph", "p_blk2", lambda s, a, b, silent: hit("blk2") or False)
    md.inline.ruler.before("text", "p_inl1", lambda s, silent: hit("inl1") or False)
    md.inline.ruler.push("p_inl2", lambda s, silent: hit("inl2") or False)
    md.inline.ruler2.push("p_inl3", lambda s: hit("inl3"))
    def hl(c, l, a): hit("hl"); return ""
    md.options["highlight"] = hl
    def rr(self, tokens, idx, options, env): hit("rr_text"); return self.text(tokens, idx, options, env)
    md.add_render_rule("text", rr)
    return md, ctr, state
md, ctr, st = build(None); md.render(DOC); counts = dict(ctr)
print("invocations:", counts, "total", sum(counts.values()))
twin, _, _ = build(None)
want = [twin.render(p) for p in PROBES]; want_rules = twin.get_active_rules(); want_opts = dict(twin.options)
bad = 0; n = 0
for name, c in counts.items():
    for i in range(1, c + 1):
        md, ctr, st = build((name, i))
        try: md.render(DOC); raised = False
        except Boom: raised = True
        n += 1
        st["target"] = None
        got = [md.render(p) for p in PROBES]
        if not raised or got != want or md.get_active_rules() != want_rules or {k: v for k, v in md.options.items() if k != "highlight"} != {k: v for k, v in want_opts.items() if k != "highlight"}:
            bad += 1; print("BAD", name, i, raised)
print("crash points", n, "bad", bad)
