import random, sys, collections, re
from gen import doc
from markdown_it import MarkdownIt
PROD = {"table_open": ["table"], "code_block": ["code"], "fence": ["fence"], "blockquote_open": ["blockquote"], "hr": ["hr"], "bullet_list_open": ["list"], "ordered_list_open": ["list"],
        "html_block": ["html_block"], "heading_open": ["heading", "lheading"], "softbreak": ["newline"], "hardbreak": ["newline", "escape"], "code_inline": ["backticks"],
        "s_open": ["strikethrough"], "em_open": ["emphasis"], "strong_open": ["emphasis"], "link_open": ["link", "autolink"], "image": ["image"], "html_inline": ["html_inline"]}
OPT = ["table", "strikethrough", "code", "fence", "blockquote", "hr", "list", "reference", "html_block", "heading", "lheading", "newline", "escape", "backticks", "emphasis", "link", "image", "autolink", "html_inline", "entity"]
def types(ts, out):
    for t in ts:
        out.add(t.type)
        if t.children: types(t.children, out)
    return out
def d(ts): return [t.as_dict() for t in ts]
def main(seed, n):
    rng = random.Random(seed); seen = collections.Counter(); cnt = collections.Counter()
    for k in range(n):
        src = doc(rng)
        preset = rng.choice(["commonmark", "js-default", "zero"])
        md = MarkdownIt(preset)
        on = rng.sample(OPT, rng.randint(0, 8)); off = rng.sample(OPT, rng.randint(0, 8))
        md.enable(on); md.disable(off)
        act = set(sum(md.get_active_rules().values(), []))
        env = {}
        ty = types(md.parse(src, env), set()); cnt["a"] += 1
        for t in ty:
            if t in PROD and not (set(PROD[t]) & act):
                if seen["a " + t] < 3: print("A", t, sorted(act), repr(src)[:200])
                seen["a " + t] += 1
            if t in ("html_block", "html_inline") and not md.options["html"]: seen["html-off"] += 1
        if env.get("references") and "reference" not in act: seen["refs"] += 1
        if preset == "zero" and not on and not (ty <= {"paragraph_open", "paragraph_close", "inline", "text"}): seen["zero"] += 1
        # (b)
        base = MarkdownIt(preset)
        if preset != "zero":
            s1 = src.replace("|", "!"); a = MarkdownIt(preset).enable("table"); b = MarkdownIt(preset).disable("table")
            if d(a.parse(s1)) != d(b.parse(s1)): seen["b-table"] += 1
            s2 = re.sub(r"~~+", "~", src); a = MarkdownIt(preset).enable("strikethrough"); b = MarkdownIt(preset).disable("strikethrough")
            if d(a.parse(s2)) != d(b.parse(s2)): seen["b-strike"] += 1
            cnt["b"] += 1
    print(cnt, seen.most_common())
main(int(sys.argv[1]), int(sys.argv[2]))
