import sys, threading
from markdown_it import MarkdownIt
import markdown_it.ruler as R
mon = sys.monitoring; TID = 3
mon.use_tool_id(TID, "preempt")
ev = []
def cb(code, off):
    ev.append((code.co_name, off))
mon.register_callback(TID, mon.events.INSTRUCTION, cb)
for fn in (R.Ruler.__compile__, R.Ruler.getRules):
    mon.set_local_events(TID, fn.__code__, mon.events.INSTRUCTION)
md2 = MarkdownIt()
md2.render("# a\n\n- *b*\n")
print("instruction events:", len(ev), ev[:5])
# can the callback block and let another thread run?
ev.clear()
res = {}
k = [0]
def cb2(code, off):
    k[0] += 1
    if k[0] == 40:
        t = threading.Thread(target=lambda: res.setdefault("B", md3.render("x *y*\n")))
        t.start(); t.join()
mon.register_callback(TID, mon.events.INSTRUCTION, cb2)
md3 = MarkdownIt()
res["A"] = md3.render("# a\n")
print(res, k[0])
