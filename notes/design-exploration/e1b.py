import itertools, time, collections
from markdown_it import MarkdownIt
V = ["", " ", ">", "> ", "> a", ">a|b", "> -|-", "a|b", "-|-", "- a", "-", "  b", "    c", "```", "> ```", "# h", "#", "===", "---", "[r]: /u", "[r]", "<div>", "1. x", "1.", "\tz", "> - q", ">>", "* * *", "~~~", "|"]
mds = {"js": MarkdownIt("js-default"), "cmx": MarkdownIt("commonmark").enable(["table","strikethrough"]), "zero": MarkdownIt("zero")}
t0 = time.time(); n = 0; exc = collections.Counter(); ex = {}
for k in (1, 2, 3):
    for combo in itertools.product(V, repeat=k):
        for tail in ("", "\n"):
            src = "\n".join(combo) + tail
            for name, md in mds.items():
                n += 1
                try: md.render(src)
                except Exception as e:
                    key = (name, type(e).__name__, str(e)[:30]); exc[key] += 1; ex.setdefault(key, src)
print(n, "cases", time.time()-t0, "s"); print(exc); print(ex)
