import random, sys, collections, re
from gen import doc, configs
from markdown_it import MarkdownIt
from e3 import norm

PREFIX_RE = re.compile(r"^[ \t>\-+*0-9.)]*$")
def tabw(s, col=0):
    for ch in s:
        col += (4 - col % 4) if ch == "\t" else 1
    return col

def line_ok(c, s, kind):
    """content line c vs source line s"""
    # c = spaces^k + rest; s = prefix + rest
    rest = c.lstrip(" ")
    k = len(c) - len(rest)
    # try all k' <= k: c = " "*k' + rest' where rest' = c[k':]
    for kk in range(k, -1, -1):
        r = c[kk:]
        if s.endswith(r):
            pre = s[:len(s)-len(r)]
            if PREFIX_RE.match(pre) and (kk == 0 or "\t" in pre):
                return True
    return False

def check(src, toks):
    errs = []
    s = norm(src); lines = s.split("\n")
    if s.endswith("\n"): lines = lines[:-1]
    for t in toks:
        if t.type in ("code_block", "fence", "html_block"):
            b, e = t.map
            c = t.content
            if c and not c.endswith("\n") and t.type != "html_block": errs.append(f"{t.type} no trailing LF"); continue
            cl = c.split("\n")
            if c.endswith("\n"): cl = cl[:-1]
            if t.type == "code_block": sl = lines[b:e]
            elif t.type == "html_block": sl = lines[b:e]
            else:
                sl = lines[b+1:e]
                # closing fence line? if last line is a closing fence it's not content
                if len(sl) == len(cl) + 1: sl = sl[:-1]
            if len(sl) != len(cl): errs.append(f"{t.type} linecount {len(cl)} vs {len(sl)} map={t.map}"); continue
            for ci, si in zip(cl, sl):
                if not line_ok(ci, si, t.type): errs.append(f"{t.type} line {ci!r} vs {si!r}")
        if t.type == "fence":
            l0 = lines[t.map[0]]
            if not (l0.endswith(t.markup + t.info) and PREFIX_RE.match(l0[:len(l0)-len(t.markup+t.info)]) and not l0[:len(l0)-len(t.markup+t.info)].endswith(t.markup[0])):
                errs.append(f"fence markup/info {t.markup!r} {t.info!r} vs {l0!r}")
        if t.type == "hr":
            l0 = lines[t.map[0]]
            if l0.count(t.markup[0]) != len(t.markup) or set(t.markup) != {t.markup[0]}: errs.append(f"hr markup {t.markup!r} vs {l0!r}")
        if t.type == "heading_open":
            if t.markup in ("=", "-"):
                ll = lines[t.map[1]-1]
                if not (set(ll.replace(">","").replace(" ","")) <= {t.markup}) : errs.append(f"lheading markup {t.markup!r} vs {ll!r}")
            else:
                l0 = lines[t.map[0]]
                m = re.match(r"^[ \t>\-+*0-9.)]*?(#+)(?:[ \t]|$)", l0)
                if not m or m.group(1) != t.markup or t.tag != "h%d" % len(t.markup): errs.append(f"heading markup {t.markup!r} vs {l0!r}")
        if t.type == "list_item_open":
            l0 = lines[t.map[0]]
            if t.markup not in l0: errs.append(f"li markup {t.markup!r} vs {l0!r}")
            if t.markup in ".)":
                if not re.search(r"(?<![0-9])" + re.escape(t.info + t.markup), l0) or not t.info.isdigit(): errs.append(f"li info {t.info!r}{t.markup!r} vs {l0!r}")
            elif t.info: errs.append("bullet info")
        if t.type == "ordered_list_open":
            pass
        if t.type == "inline":
            # code spans
            for ch in t.children or []:
                if ch.type == "code_inline":
                    m = ch.markup
                    found = False
                    runs = [(x.start(), x.end()) for x in re.finditer(r"`+", t.content) if x.end()-x.start() == len(m)]
                    for i in range(len(runs)):
                        for j in range(i+1, len(runs)):
                            raw = t.content[runs[i][1]:runs[j][0]]
                            r = raw.replace("\n", " ")
                            if r.startswith(" ") and r.endswith(" ") and r.strip(" ") != "": r = r[1:-1]
                            if r == ch.content: found = True
                    if not found: errs.append(f"codespan {ch.content!r} markup {m!r} in {t.content!r}")
    return errs

def main(seed, n):
    rng = random.Random(seed)
    cfgs = configs()
    seen = collections.Counter(); cnt = collections.Counter()
    for k in range(n):
        src = doc(rng)
        for name, mk in cfgs.items():
            md = mk()
            try: toks = md.parse(src)
            except Exception: continue
            for t in toks: cnt[t.type] += 1
            for e in check(src, toks):
                key = re.sub(r"\d+", "N", e)[:28]
                if seen[key] < 3: print("ERR", name, e[:300], repr(src)[:300])
                seen[key] += 1
    print({k: v for k, v in cnt.items() if k in ("code_block","fence","html_block","hr","heading_open","list_item_open")}); print(seen.most_common(30))
main(int(sys.argv[1]), int(sys.argv[2]))
