import random, sys, collections, re
from gen import doc
from markdown_it import MarkdownIt
from markdown_it.token import Token
from markdown_it.tree import SyntaxTreeNode
def d(ts): return [t.as_dict() for t in ts]
def strip(ts):
    out = []
    for t in ts:
        if t.type == "definition": continue
        x = t.as_dict()
        def rm(y):
            if isinstance(y.get("meta"), dict): y["meta"] = {k: v for k, v in y["meta"].items() if k != "label"}
            for c in y.get("children") or []: rm(c)
        rm(x); out.append(x)
    return out
def main(seed, n):
    rng = random.Random(seed); seen = collections.Counter(); cnt = collections.Counter()
    for k in range(n):
        src = doc(rng) + "\n[r]: /u 't'\n\n- [q]: /v\n  [q] [r][] [t][r]\n"
        preset = rng.choice(["commonmark", "js-default"])
        a = MarkdownIt(preset); b = MarkdownIt(preset, {"inline_definitions": True, "store_labels": True})
        b.add_render_rule("definition", lambda self, tokens, idx, options, env: "")
        ea, eb = {}, {}
        ta, tb = a.parse(src, ea), b.parse(src, eb)
        cnt["docs"] += 1; cnt["defs"] += sum(t.type == "definition" for t in tb)
        if strip(ta) != strip(tb) or d(ta) != strip(ta): seen["tokens"] += 1
        if ea != eb: seen["env"] += 1
        ha, hb = a.render(src), b.render(src)
        nz = lambda h: re.sub(r">\n+", ">", h)
        if nz(ha) != nz(hb):
            if seen["html"] < 4: print(repr(src)[-200:], "\n", repr(ha)[-300:], "\n", repr(hb)[-300:])
            seen["html"] += 1
        if ha != hb: cnt["html-differs-raw"] += 1
        # C15 quick
        for t in ta:
            for up in (True, False):
                if Token.from_dict(t.as_dict(as_upstream=up)) != t: seen["rt"] += 1
        tree = SyntaxTreeNode(ta)
        if [id(x) for x in tree.to_tokens()] != [id(x) for x in ta]: seen["tree"] += 1
        r1 = a.renderer.render(ta, a.options, ea); r2 = a.renderer.render(ta, a.options, ea)
        if r1 != r2 or r1 != ha: seen["rerender"] += 1
        if a.renderer.render([Token.from_dict(t.as_dict()) for t in ta], a.options, ea) != ha: seen["rt-render"] += 1
    print(cnt, seen.most_common())
main(int(sys.argv[1]), int(sys.argv[2]))
