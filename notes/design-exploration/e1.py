import random, sys, collections, re
from gen import doc, configs
from markdown_it import MarkdownIt
from markdown_it.tree import SyntaxTreeNode

def check_stream(tokens, block, path="top"):
    errs = []
    depth = 0
    stack = []
    prev = None
    for i, t in enumerate(tokens):
        if t.nesting == -1:
            depth -= 1
            if depth < 0:
                errs.append(f"{path}[{i}] depth<0"); depth = 0
            else:
                o = stack.pop()
                if not (o.type.endswith("_open") and t.type.endswith("_close") and o.type[:-5] == t.type[:-6]):
                    errs.append(f"{path}[{i}] kind mismatch {o.type}/{t.type}")
                if o.tag != t.tag: errs.append(f"{path}[{i}] tag mismatch {o.tag}/{t.tag}")
                if o.markup != t.markup: errs.append(f"{path}[{i}] markup mismatch {o.type} {o.markup!r}/{t.markup!r}")
        if t.level != depth:
            errs.append(f"{path}[{i}] level {t.level} != depth {depth} ({t.type})")
        if t.nesting == 1:
            depth += 1; stack.append(t)
        if t.nesting not in (-1,0,1): errs.append("bad nesting")
        if t.block != block: errs.append(f"{path}[{i}] block flag {t.block} ({t.type})")
        if t.type in ("text_special",): errs.append(f"{path}[{i}] text_special survives")
        if prev is not None and prev.type == "text" and t.type == "text": errs.append(f"{path}[{i}] adjacent text")
        if t.children is not None and t.type not in ("inline", "image"): errs.append(f"{path}[{i}] children on {t.type}")
        if t.type == "inline":
            if t.children is None: errs.append(f"{path}[{i}] inline children None")
            else: errs += check_stream(t.children, False, path+f"[{i}].inline")
        if t.type == "image" and t.children:
            errs += check_stream(t.children, False, path+f"[{i}].img")
        prev = t
    if depth != 0: errs.append(f"{path} ends depth {depth}")
    return errs

def main(seed, n):
    rng = random.Random(seed)
    cfgs = configs()
    stats = collections.Counter()
    seen = collections.Counter()
    for k in range(n):
        src = doc(rng)
        for name, mk in cfgs.items():
            md = mk()
            try:
                toks = md.parse(src)
                md.render(src)
            except Exception as e:
                key = ("EXC", name, type(e).__name__)
                if seen[key] < 2: print("EXC", name, type(e).__name__, e, repr(src))
                seen[key]+=1
                continue
            errs = check_stream(toks, True)
            try:
                SyntaxTreeNode(toks)
            except Exception as e:
                errs.append("tree: %r" % e)
            for e in errs:
                key = re.sub(r"\[\d+\]", "[]", e)
                key = re.sub(r"\d+", "N", key)
                if seen[key] < 2: print("ERR", name, e, repr(src))
                seen[key]+=1
            stats[name] += 1
    print(stats); print(seen.most_common(40))
main(int(sys.argv[1]), int(sys.argv[2]))
